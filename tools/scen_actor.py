"""Behaviours of Actor.tla (TLC state graph or -simulate output) -> scenario scripts for cmd/actorscen."""
import json
import random
import sys
from collections import deque

ENV = {"Spawn", "SpawnAgain", "Send", "StopReq"}
GATES = {"DoInit", "DoStarted", "DoDeliver", "DrainDeliver", "RecoverStopped", "ClStopped"}


def tokname(t):
    return t[1] if isinstance(t, list) else json.loads(t)[1]


class Inst:
    """instance constants needed to mirror AtGate/Blocked in python"""

    def __init__(self, actors, toks, fixD12=True):
        self.actors = actors          # name -> {parent, kids, maxRestarts}
        self.toks = toks              # name -> {target, graceful}
        self.fixD12 = fixD12
        self.roots = [a for a, c in actors.items() if not c["parent"]]

    def config_line(self):
        return json.dumps({"actors": self.actors, "toks": self.toks})


def at_gate(inst, st, a):
    e = st["ex"][a]
    pc = e["pc"]
    inc = st["inc"][a]
    if pc == "init":
        return (a, inc, "Init", 0)
    if pc == "started":
        return (a, inc, "Started", 0)
    if pc == "deliver":
        return (a, inc, "user", e["batch"][e["i"] - 1]["id"])
    if pc == "cl_stopped":
        return (a, inc, "Stopped", 0)
    if pc == "drain" and e["j"] <= len(e["batch"]) and e["batch"][e["j"] - 1]["t"] == "user":
        return (a, inc, "user", e["batch"][e["j"] - 1]["id"])
    if pc == "recover" and not (inst.fixD12 and e["pv"] == "plain" and st["restarts"][a] == inst.actors[a]["maxRestarts"]):
        return (a, inc, "Stopped", 0)
    return None


def tokstate(st, kind, name):
    return st["tok"][json.dumps([kind, name])]


def blocked(inst, st, a):
    e = st["ex"][a]
    pc = e["pc"]
    if pc == "none":
        return True
    if pc == "cl_wait":
        return tokstate(st, "par", e["snap"][0]) != "done"
    if pc == "spawnwait":
        return e["todo"][0] not in st["spret"]["#set"]
    if pc == "cl_succwait":
        return inst.actors[a].get("succ") not in st["spret"]["#set"]
    return False


def internal_enabled(inst, st, a):
    return at_gate(inst, st, a) is None and not blocked(inst, st, a)


def expectation(inst, st):
    gates = [list(g) for g in (at_gate(inst, st, a) for a in sorted(inst.actors)) if g]
    done = sorted(t for t in inst.toks if tokstate(st, "env", t) == "done")
    spret = sorted(a for a in st["spret"]["#set"] if a in inst.roots)
    return {"gates": [{"a": g[0], "inc": g[1], "kind": g[2], "id": g[3]} for g in gates], "done": done, "spret": spret}


def script_of(inst, states, acts):
    """states: list of state dicts s0..sn; acts: list of (name, args) for transitions i -> i+1"""
    steps = []
    racy = False
    pend = None   # index into steps awaiting expectation
    for i, (name, args) in enumerate(acts):
        src, dst = states[i], states[i + 1]
        if sum(1 for a in inst.actors if internal_enabled(inst, src, a)) >= 2:
            racy = True
        if name in ENV or name in GATES:
            if steps:
                steps[-1].update(expectation(inst, src))
            if name == "Spawn":
                steps.append({"op": "spawn", "a": args[0]})
            elif name == "SpawnAgain":
                steps.append({"op": "spawn", "a": args[0], "again": True})
            elif name == "Send":
                steps.append({"op": "send", "a": args[0], "id": src["nextMsg"]})
            elif name == "StopReq":
                steps.append({"op": "stop", "t": tokname(args[0])})
            else:
                ent = dst["log"][-1]
                st = {"op": "grant", "a": ent["a"], "inc": ent["inc"], "kind": ent["kind"], "id": ent["id"]}
                if len(args) > 1 and args[1] in ("plain", "internal"):
                    st["crash"] = args[1]
                steps.append(st)
    if steps:
        steps[-1].update(expectation(inst, states[-1]))
    final = states[-1]
    exp = {
        "log": [{"a": x["a"], "inc": x["inc"], "kind": x["kind"], "id": x["id"], "mw": x["mw"], "kids": sorted(x["kids"]["#set"]),
                 "alive": sorted(x["alive"]["#set"]), "sreg": x["sreg"], "dn": sorted(tokname(t) for t in x["dn"]["#set"])}
                for x in final["log"]],
        "events": final["events"],
        "done": sorted(t for t in inst.toks if tokstate(final, "env", t) == "done"),
        "reg": final["reg"],
        "quiet": all(final["ex"][a]["pc"] == "none" for a in inst.actors),
        "dead": final["dead"], "overlap": final["overlap"],
    }
    return steps, exp, racy


def cover_paths(nodes, init, edges, seed=1, max_paths=0):
    """edge cover by paths from init, each extended to a terminal node. yields lists of edge indices"""
    out = {}
    for i, e in enumerate(edges):
        out.setdefault(e[0], []).append(i)
    root = init[0]
    parent = {root: -1}
    q = deque([root])
    while q:
        n = q.popleft()
        for ei in out.get(n, []):
            d = edges[ei][1]
            if d not in parent:
                parent[d] = ei
                q.append(d)
    rng = random.Random(seed)
    order = [i for i, e in enumerate(edges) if e[0] in parent]
    rng.shuffle(order)
    visited = [False] * len(edges)
    cursor = {}
    npaths = 0
    for ei in order:
        if visited[ei]:
            continue
        path = []
        n = edges[ei][0]
        while parent[n] >= 0:
            path.append(parent[n])
            n = edges[parent[n]][0]
        path.reverse()
        path.append(ei)
        for pe in path:
            visited[pe] = True
        cur = edges[ei][1]
        while True:
            outs = out.get(cur, [])
            if not outs:
                break
            nxt = None
            c = cursor.get(cur, 0)
            while c < len(outs):
                if not visited[outs[c]]:
                    nxt = outs[c]
                    c += 1
                    break
                c += 1
            cursor[cur] = c
            if nxt is None:
                nxt = outs[rng.randrange(len(outs))]   # head for a terminal state
            visited[nxt] = True
            path.append(nxt)
            cur = edges[nxt][1]
        yield path
        npaths += 1
        if max_paths and npaths >= max_paths:
            return


def scenarios_from_graph(inst, nodes, init, edges, seed=1, max_paths=0):
    seen = set()
    sid = 0
    for path in cover_paths(nodes, init, edges, seed, max_paths):
        states = [nodes[edges[path[0]][0]]] + [nodes[edges[ei][1]] for ei in path]
        acts = [(edges[ei][2], edges[ei][3]) for ei in path]
        steps, exp, racy = script_of(inst, states, acts)
        key = json.dumps(steps, sort_keys=True)
        if key in seen or not steps:
            continue
        seen.add(key)
        sid += 1
        nev = len(exp["events"])
        yield {"id": sid, "mw": sid % 4, "inbox": [1, 2, 3, 1024][(sid // 4) % 4], "steps": steps, "nevents": nev}, exp, racy
