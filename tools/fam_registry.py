"""C10, concurrent level: Registry.tla (one action per operation on the registry's RWMutex) bound to
the real actor.Registry by B-graph replay through gate shims (cmd/regconc)."""
import json
import os

import graphs
import overlay
import vlib

PROGS = {
    "two_spawns_one_reader": {"a": [("add", "x")], "b": [("add", "x")], "c": [("get", "x")]},
    "spawn_remove_vs_spawn": {"a": [("add", "x"), ("remove", "x")], "b": [("add", "x")]},
    "three_spawns": {"a": [("add", "x")], "b": [("add", "x")], "c": [("add", "x")]},
    "two_ids": {"a": [("add", "x"), ("get", "y")], "b": [("add", "y"), ("add", "x")]},
}
PLAN = {"quick": ["two_spawns_one_reader", "spawn_remove_vs_spawn"], "thorough": ["two_spawns_one_reader", "spawn_remove_vs_spawn", "three_spawns", "two_ids"]}


def tla_progs(threads):
    return "[" + ", ".join("%s |-> <<%s>>" % (t, ", ".join('[op |-> "%s", id |-> "%s"]' % c for c in cs)) for t, cs in sorted(threads.items())) + "]"


def build(sc):
    shim, rep = overlay.shim_file(sc, "actor/registry.go", ["sync"], tag="rg_")
    ov = overlay.write_overlay(sc, "ov_regconc.json", {"actor/registry.go": shim})
    return vlib.go_build(sc, "./cmd/regconc", "regconc", overlay=ov)


def conc_part(sc, v, tier):
    binp = build(sc)
    cov = v.coverage
    cov.update({"registry_concurrent": [], "registry_gate_steps": 0})
    cov.setdefault("edges_total", 0)
    cov.setdefault("edges_covered", 0)
    v.assumptions += ["concurrent spawns: 2-3 threads calling SpawnProc / Remove / GetPID on one engine, every interleaving of their operations on the registry's RWMutex "
                      "(gate shims generated from the working tree's registry.go; sequentially consistent)"]
    d = vlib.stage_specs(sc)
    for name in PLAN[tier]:
        threads = PROGS[name]
        open(os.path.join(d, "MCRegistryGen.tla"), "w").write("---- MODULE MCRegistryGen ----\nEXTENDS Registry\nTheProgs == %s\n====\n" % tla_progs(threads))
        cfg = "CONSTANTS Progs <- TheProgs\nSPECIFICATION Spec\nINVARIANTS TypeOK C10_OneWinner C10_Exclusive\nPROPERTIES C10_Done\n"
        r, gjson, nn, ne = graphs.dump_graph(sc, "MCRegistryGen.tla", cfg, "rg_" + name, workers=4)
        v.add_tlc(r, "registry " + name)
        if r.violated:
            raise vlib.Broken("Registry.tla violates %s on %s: the model is wrong" % (r.violated, name))
        hcfg = {"threads": {t: [{"op": o, "id": i} for o, i in cs] for t, cs in threads.items()}}
        p = vlib.run([binp, "-graph", gjson, "-config", json.dumps(hcfg), "-seed", str(vlib.seed()),
                      "-explore-budget", "60s" if tier == "quick" else "300s"], timeout=900)
        rep = json.loads(p.stdout)
        os.remove(gjson)
        if rep.get("error"):
            raise vlib.Broken("regconc %s: %s" % (name, rep["error"]))
        cov["edges_total"] += rep["edges_total"]
        cov["edges_covered"] += rep["edges_covered"]
        cov["registry_gate_steps"] += rep["steps"]
        cov["traces_validated_against_impl"] += rep["runs"]
        cov["registry_concurrent"].append({"program": name, "nodes": rep["nodes"], "edges": rep["edges_total"], "edges_covered": rep["edges_covered"], "runs": rep["runs"],
                                           "model_outcomes": rep["model_outcomes"], "divergences": len(rep.get("divergences") or []),
                                           "explored_schedules": rep["explored_schedules"]})
        if rep.get("divergences"):
            cov["nonconformant_runs"] += len(rep["divergences"])
            dv = rep["divergences"][0]
            cov.setdefault("nonconformance", []).append({"program": name, "after": dv["path"][-6:], "want": dv["want"], "got": dv["got"], "err": dv.get("err", "")})
        for s in (rep.get("samples") or [])[:1]:
            v.sample({"program": name, "schedule": s})
        for viol in (rep.get("violations") or [])[:1]:
            rf = {"kind": "regconc", "config": hcfg, "schedule": viol["schedule"], "allowed": rep["allowed"], "what": viol["what"]}
            tmp = sc.path("rf.json")
            json.dump(rf, open(tmp, "w"))
            pr = vlib.run([binp, "-replay", tmp], ok_codes=(0, 1))
            if pr.returncode != 1:
                raise vlib.Broken("concurrent registry violation did not reproduce: " + viol["what"])
            v.violation(rf, "%s [program %s, schedule of %d gate steps]" % (viol["what"], name, len(viol["schedule"])))
        if v.violations:
            break


def replay(sc, path):
    binp = build(sc)
    pr = vlib.run([binp, "-replay", path], ok_codes=(0, 1))
    print(pr.stdout.strip())
    return pr.returncode
