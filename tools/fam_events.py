"""C09, C12 -- event stream, dead letters.  EventStream.tla (the stream actor's Receive, one message
per step; Subscribe / Unsubscribe / BroadcastEvent / undeliverable sends / subscribers that stop) is
model-checked by TLC; every maximal operation sequence is exported with the per-subscriber logs TLC
computed and replayed on a real engine by cmd/evscen (B-scenario).  C12's clause about the engine's
own lifecycle events is decided on the Actor.tla scenarios (fam_actor, published events = model's)."""
import json
import os

import fam_actor
import fam_wire
import overlay
import vlib

BASE = ("CONSTANTS Subs <- %(subs)s Objs <- %(objs)s Bcasters <- %(bc)s MaxOps = %(ops)d MaxEv = %(ev)d AllowStop = %(stop)s AllowRespawn = %(resp)s AllowRevive = %(rev)s RemoteSubs <- %(rs)s "
        "SendTargets <- %(tg)s SendSenders <- %(sd)s SendPayloads <- %(pl)s\n KeyByValue = %(kbv)s DropDead = %(dd)s Export = %(exp)s\n"
        "SPECIFICATION Spec\nINVARIANTS TypeOK C12_Exact C09_Finite ExportCase\n%(live)s")


def cfg(subs="S2", objs="O2", bc="B1", ops=4, ev=3, stop=False, tg="NoTargets", sd="NoSenders", kbv=True, dd=True, exp=True, live=True, resp=False, pl="PlainPayload", rev=False, rs="NoRemote"):
    b = lambda x: "TRUE" if x else "FALSE"
    return BASE % dict(subs=subs, objs=objs, bc=bc, ops=ops, ev=ev, stop=b(stop), resp=b(resp), rev=b(rev), rs=rs, tg=tg, sd=sd, pl=pl, kbv=b(kbv), dd=b(dd), exp=b(exp),
                       live="PROPERTIES C09_Live\n" if live else "")


PLAN = {
    "C12": {"quick": [("subs2_objs2_ops4", dict(subs="S2", objs="O2", bc="B2", ops=4, ev=2)),
                      ("respawn_ops4", dict(subs="S1", objs="O2", bc="B1", ops=4, ev=2, resp=True)),
                      # a subscriber stops without unsubscribing, events pass, the id is spawned again and subscribes
                      # a subscriber on another node (PIDs are identified by address and id, not by their concatenation)
                      ("remote_sub_ops4", dict(subs="SR", objs="O1", bc="B1", ops=4, ev=2, rs="R1")),
                      ("revive_ops5", dict(subs="S1", objs="O1", bc="B1", ops=5, ev=2, stop=True, rev=True)),
                      ("subs2_objs2_ops5_b1", dict(subs="S2", objs="O2", bc="B1", ops=5, ev=1))],
            "thorough": [("subs2_objs2_ops5", dict(subs="S2", objs="O2", bc="B2", ops=5, ev=3)),
                         ("subs2_stop_ops5", dict(subs="S2", objs="O2", bc="B1", ops=5, ev=3, stop=True)),
                         ("respawn_ops5", dict(subs="S2", objs="O1", bc="B1", ops=5, ev=2, resp=True, stop=True)),
                         ("remote_sub_ops5", dict(subs="SR", objs="O2", bc="B1", ops=5, ev=2, rs="R1", stop=True)),
                         ("revive_ops6", dict(subs="S2", objs="O1", bc="B1", ops=6, ev=2, stop=True, rev=True))]},
    "C09": {"quick": [("dead_ops3", dict(subs="SM", objs="O1", bc="B1", ops=3, ev=2, stop=True, tg="AllTargets", sd="BothSenders")),
                      ("dead_ops4_small", dict(subs="SM", objs="O1", bc="B1", ops=4, ev=1, stop=True, tg="SomeTargets", sd="NoSenders")),
                      # the message goes out through Engine.Request; the message value is the untyped nil
                      ("dead_req_nil_ops3", dict(subs="S1", objs="O1", bc="B1", ops=3, ev=1, stop=True, tg="AllTargets", sd="ReqSenders", pl="AllPayloads")),
                      # an engine that has a remote (its address is the remote's, not "local"); a subscriber on another node
                      ("dead_remote_engine_ops4", dict(subs="SR", objs="O1", bc="B1", ops=4, ev=1, stop=True, tg="LocalTargets", sd="NoSenders", rs="R1"))],
            "thorough": [("dead_ops4", dict(subs="SM", objs="O1", bc="B1", ops=4, ev=2, stop=True, tg="AllTargets", sd="BothSenders")),
                         ("dead_ops5_small", dict(subs="SM", objs="O1", bc="B1", ops=5, ev=2, stop=True, tg="SomeTargets", sd="NoSenders")),
                         ("dead_req_nil_ops4", dict(subs="S1", objs="O1", bc="B1", ops=4, ev=1, stop=True, tg="AllTargets", sd="ReqSenders", pl="AllPayloads")),
                         ("dead_remote_engine_ops5", dict(subs="SR", objs="O1", bc="B1", ops=5, ev=1, stop=True, tg="LocalTargets", sd="BothSenders", rs="R1"))]},
}
REGRESSION = {
    "C12": [("KeyByValue=FALSE", dict(subs="S2", objs="O2", bc="B1", ops=4, ev=2, kbv=False, exp=False, live=False), {"C12_Exact"})],
    "C09": [("DropDead=FALSE", dict(subs="SM", objs="O1", bc="B1", ops=4, ev=2, stop=True, tg="SomeTargets", sd="NoSenders", dd=False, exp=False, live=False),
             {"C09_Finite"})],
}


def run(prop, tier, replay):
    sc = vlib.Scratch(prop)
    try:
        ov = overlay.write_overlay(sc, "ov.json")
        binp = vlib.go_build(sc, "./cmd/evscen", "evscen", overlay=ov)
        if replay:
            rf = json.load(open(replay))
            if rf.get("kind") in ("events", "history", "process-death"):
                return fam_actor.run(prop, tier, replay)
            p = sc.path("one.ndjson")
            open(p, "w").write(json.dumps(rf["case"]) + "\n")
            pr = vlib.run([binp, "-cases", p, "-workers", "1"], ok_codes=(0, 1))
            print(pr.stdout.strip()[:2000])
            return pr.returncode
        v = vlib.Verdict(prop, tier)
        cov = v.coverage
        cov.update({"cases": 0, "ops_executed": 0, "exhaustive": True, "stream_instances": []})
        v.assumptions += [
            "operations are issued from one driver goroutine (plus one goroutine per broadcaster, sequenced by the driver), so the stream's inbox order is the order of issue; "
            "a subscriber is stopped only at quiescence; at most one stopped-but-subscribed actor at a time",
            "bounded: 2 subscribers x 2 PID objects (original, equal copy), <= 5 operations, <= 3 events per broadcaster; undeliverable targets: nil, never spawned, stopped, foreign address (engine without remote)",
        ]
        for tag, kw in PLAN[prop][tier]:
            r, cases = fam_wire.tlc_cases(sc, "MCEventStream.tla", cfg(**kw), tag)
            v.add_tlc(r, tag)
            if r.violated:
                raise vlib.Broken("EventStream.tla violates %s on %s: the model is wrong, not the code" % (r.violated, tag))
            if not cases:
                raise vlib.Broken("no cases exported for " + tag)
            cp = sc.path(tag + ".ndjson")
            with open(cp, "w") as f:
                for c in cases:
                    f.write(json.dumps(c) + "\n")
            pr = vlib.run([binp, "-cases", cp, "-workers", str(max(2, vlib.ncpu() - 4))], ok_codes=(0, 1), timeout=3000)
            rep = json.loads(pr.stdout)
            cov["cases"] += rep["cases"]
            cov["ops_executed"] += rep["ops"]
            cov["traces_validated_against_impl"] += rep["cases"]
            mine = [f for f in (rep["failures"] or []) if f["prop"] == prop]
            other = [f for f in (rep["failures"] or []) if f["prop"] not in (prop, "harness")]
            harness = [f for f in (rep["failures"] or []) if f["prop"] == "harness"]
            if harness:
                raise vlib.Broken("evscen: " + harness[0]["what"])
            cov["stream_instances"].append({"instance": tag, "cases": rep["cases"], "failures_this_property": len(mine),
                                            "mismatches_attributed_to_other_property": len(other)})
            for s in (rep["samples"] or [])[:2]:
                v.sample({"ops": s["hist"], "expected_logs": s["got"]})
            for f in mine[:3]:
                rf = {"case": f["case"], "seen": f["seen"], "what": f["what"], "instance": tag}
                tmp = sc.path("rf.ndjson")
                open(tmp, "w").write(json.dumps(f["case"]) + "\n")
                p2 = vlib.run([binp, "-cases", tmp, "-workers", "1"], ok_codes=(0, 1))
                if p2.returncode != 1:
                    raise vlib.Broken("event stream failure did not reproduce: " + f["what"])
                v.violation(rf, "%s [%s case %d: %s]" % (f["what"][:300], tag, f["index"], " ".join(o["op"] for o in f["case"]["hist"])))
            if v.violations:
                break
        reg = {}
        for name, kw, want in REGRESSION[prop]:
            r, _ = fam_wire.tlc_cases(sc, "MCEventStream.tla", cfg(**kw), "reg")
            reg[name] = r.violated or "NOT VIOLATED"
            if r.violated not in want:
                raise vlib.Broken("vacuity guard: %s should violate %s, got %s" % (name, sorted(want), r.violated))
        cov["regression_configs"] = reg
        if prop == "C12" and not v.violations:
            # lifecycle events (started, stopped, restarted, max restarts, dead letter ...) published for every occurrence
            binp2 = vlib.go_build(sc, "./cmd/actorscen", "actorscen")
            fam_actor.do_check(sc, binp2, "C12", tier, v)
        return v.finish()
    finally:
        sc.cleanup()


CHECKS = {"C09": run, "C12": run}
