"""C07, concurrent level: StopWait.tla (one action per operation on process.stopMu) bound to the real stop-waiter
protocol of actor/process.go (onStopped / stoppedNow) by B-graph replay through gate shims (cmd/stopconc)."""
import json
import os

import graphs
import overlay
import vlib

PLAN = {"quick": [("two_callers", "C2", ["c1", "c2"])], "thorough": [("two_callers", "C2", ["c1", "c2"]), ("three_callers", "C3", ["c1", "c2", "c3"])]}


def build(sc):
    shim, rep = overlay.shim_file(sc, "actor/process.go", ["sync", "sync/atomic"], tag="sw_")
    ov = overlay.write_overlay(sc, "ov_stopconc.json", {"actor/process.go": shim},
                               add_files={"actor/verif_stopwait.go": os.path.join(vlib.HARNESS, "overlay_opt", "actor", "verif_stopwait.go")})
    return vlib.go_build(sc, "./cmd/stopconc", "stopconc", overlay=ov)


def conc_part(sc, v, tier):
    binp = build(sc)
    cov = v.coverage
    cov.update({"stop_waiters_concurrent": [], "stop_waiters_gate_steps": 0})
    cov.setdefault("edges_total", 0)
    cov.setdefault("edges_covered", 0)
    v.assumptions += ["concurrent Stop / Poison callers: 2-3 callers registering with a process while it stops, every interleaving of their operations on process.stopMu "
                      "(gate shims generated from the working tree's process.go; sequentially consistent)"]
    for name, callers, names in PLAN[tier]:
        cfg = ("CONSTANTS Callers <- %s Actor = \"a\"\nSPECIFICATION Spec\nCHECK_DEADLOCK FALSE\n"
               "INVARIANTS TypeOK C07_AllSignalled C07_AtMostOnce C07_OnlyAfterStop\nPROPERTIES C07_Done\n" % callers)
        r, gjson, nn, ne = graphs.dump_graph(sc, "MCStopWait.tla", cfg, "sw_" + name, workers=2)
        v.add_tlc(r, "stop waiters " + name)
        if r.violated:
            raise vlib.Broken("StopWait.tla violates %s on %s: the model is wrong" % (r.violated, name))
        hcfg = {"callers": names, "actor": "a"}
        p = vlib.run([binp, "-graph", gjson, "-config", json.dumps(hcfg), "-seed", str(vlib.seed()),
                      "-explore-budget", "60s" if tier == "quick" else "300s"], timeout=900)
        rep = json.loads(p.stdout)
        os.remove(gjson)
        if rep.get("error"):
            raise vlib.Broken("stopconc %s: %s" % (name, rep["error"]))
        cov["edges_total"] += rep["edges_total"]
        cov["edges_covered"] += rep["edges_covered"]
        cov["stop_waiters_gate_steps"] += rep["steps"]
        cov["traces_validated_against_impl"] += rep["runs"]
        cov["stop_waiters_concurrent"].append({"program": name, "nodes": rep["nodes"], "edges": rep["edges_total"], "edges_covered": rep["edges_covered"],
                                               "runs": rep["runs"], "divergences": len(rep.get("divergences") or []), "explored_schedules": rep["explored_schedules"]})
        if rep.get("divergences"):
            cov["nonconformant_runs"] += len(rep["divergences"])
            dv = rep["divergences"][0]
            cov.setdefault("nonconformance", []).append({"program": name, "after": dv["path"][-6:], "want": dv["want"], "got": dv["got"], "err": dv.get("err", "")})
        for s in (rep.get("samples") or [])[:1]:
            v.sample({"program": name, "schedule": s})
        for viol in (rep.get("violations") or [])[:1]:
            rf = {"kind": "stopconc", "config": hcfg, "schedule": viol["schedule"], "what": viol["what"]}
            tmp = sc.path("rf.json")
            json.dump(rf, open(tmp, "w"))
            pr = vlib.run([binp, "-replay", tmp], ok_codes=(0, 1))
            if pr.returncode != 1:
                raise vlib.Broken("concurrent stop-waiter violation did not reproduce: " + viol["what"])
            v.violation(rf, "%s [%s, schedule of %d gate steps]" % (viol["what"], name, len(viol["schedule"])))
        if v.violations:
            break


def replay(sc, path):
    binp = build(sc)
    pr = vlib.run([binp, "-replay", path], ok_codes=(0, 1))
    print(pr.stdout.strip())
    return pr.returncode
