"""C18, C19 -- cluster agent.  ClusterAgent.tla (handleMembers, activate, handleActivation /
Deactivation / ActorTopology, Cluster.Spawn, join / leave, FIFO links between agents) is
model-checked by TLC; an edge cover of its state graph is replayed on an in-memory cluster of real
engines and agents (cmd/clusterscen) and after every step the API-visible state of every member is
compared with the state TLC computed (B-scenario)."""
import json
import os

import graphs
import overlay
import scen_actor
import vlib

SW = "PurgeByHost = %s SendTopology = %s CheckDuplicate = %s Rogue = TRUE"

KINDS = {"KMem": {"A": ["p"], "G1": ["p", "q"], "G2": ["q"], "G3": []},
         "KAct": {"A": ["p"], "B": ["p", "q"], "C": []}, "KAct0": {"A": ["p"], "B": [], "C": []},
         "KActPP": {"A": ["p"], "B": ["p"], "C": []}}
SETS = {"N1": ["A"], "N2": ["A", "B"], "N3": ["A", "B", "C"], "G3": ["G1", "G2", "G3"], "G2": ["G1", "G2"], "NoGhosts": [],
        "KP": ["p"], "KPQ": ["p", "q"], "KPQR": ["p", "q", "r"], "I1": ["1"], "I2": ["1", "2"], "IB": ["bulk"], "IS": ["1", "x/1"], "S0": [], "S1": ["x"],
        "UpA": ["A"], "UpAB": ["A", "B"], "UpABC": ["A", "B", "C"]}


BULK = 1100


def inst(nodes, ghosts, kindsof, akinds, aids, sids, initup, maxops, mode):
    return dict(nodes=nodes, ghosts=ghosts, kindsof=kindsof, akinds=akinds, aids=aids, sids=sids, initup=initup, maxops=maxops, mode=mode)


INST = {
    "mem_3ghosts_ops3": inst("N1", "G3", "KMem", "KP", "I1", "S0", "UpA", 3, "membership"),
    "mem_3ghosts_ops4": inst("N1", "G3", "KMem", "KP", "I1", "S0", "UpA", 4, "membership"),
    "act_2nodes_ops4": inst("N2", "NoGhosts", "KAct", "KPQR", "I1", "S1", "UpA", 4, "activation"),
    "act_2nodes_ops5": inst("N2", "NoGhosts", "KAct", "KPQR", "I2", "S1", "UpAB", 5, "activation"),
    "act_3nodes_ops4": inst("N3", "NoGhosts", "KAct", "KPQ", "I1", "S1", "UpAB", 4, "activation"),
    "act_3nodes_ops3": inst("N3", "NoGhosts", "KAct", "KPQ", "I1", "S0", "UpAB", 3, "activation"),
    # a member that registered no kind at all still hosts cluster-spawned actors
    # the id "bulk" stands for a block of BULK actors (more than one batch of anything): large topologies at a join
    "act_3nodes_bulk": inst("N3", "NoGhosts", "KAct", "KP", "IB", "S0", "UpAB", 3, "activation"),
    # one id activated, deactivated, activated on the other member, then the first host leaves
    "act_2nodes_reactivate": inst("N2", "NoGhosts", "KActPP", "KP", "I1", "S0", "UpAB", 4, "activation"),
    # an id may contain the separator itself
    "act_2nodes_slash": inst("N2", "NoGhosts", "KAct", "KP", "IS", "S0", "UpAB", 3, "activation"),
    "act_2nodes_kindless": inst("N2", "NoGhosts", "KAct0", "KP", "I1", "S1", "UpAB", 3, "activation"),
}
PLAN = {"C18": {"quick": ["mem_3ghosts_ops3"], "thorough": ["mem_3ghosts_ops4"]},
        "C19": {"quick": ["act_2nodes_ops4", "act_3nodes_ops3", "act_2nodes_kindless", "act_2nodes_reactivate", "act_2nodes_slash", "act_3nodes_bulk"],
                "thorough": ["act_2nodes_ops5", "act_3nodes_ops4", "act_2nodes_kindless", "act_2nodes_slash", "act_3nodes_bulk"]}}
REGRESSION = {"C18": [], "C19": [((False, True, True), {"C19_Agreement"}), ((True, False, True), {"C19_Agreement"}), ((True, True, False), {"C19_Unique", "C19_Agreement"})]}


def cfg_text(name, sw=(True, True, True), maxops=None):
    i = INST[name]
    b = lambda x: "TRUE" if x else "FALSE"
    s = ("CONSTANTS Nodes <- %(nodes)s Ghosts <- %(ghosts)s KindsOf <- %(kindsof)s AKinds <- %(akinds)s AIds <- %(aids)s SpawnIds <- %(sids)s "
         "InitUp <- %(initup)s MaxOps = %(maxops)d Mode = \"%(mode)s\"\n" % dict(i, maxops=maxops or i["maxops"]))
    s += " " + SW % tuple(b(x) for x in sw) + "\nSPECIFICATION Spec\n"
    if i["mode"] == "membership":
        s += "INVARIANTS TypeOK C18_KindsExact\nPROPERTIES C18_Action\n"
    else:
        s += "INVARIANTS TypeOK C19_Agreement C19_Unique C19_Capable\n"
    return s


def harness_config(name):
    i = INST[name]
    nodes, ghosts = SETS[i["nodes"]], SETS[i["ghosts"]]
    ids = [[k, x] for k in SETS[i["akinds"]] for x in SETS[i["aids"]]] + [["sp", x] for x in SETS[i["sids"]]]
    return {"nodes": nodes, "ghosts": ghosts, "kindsOf": {m: KINDS[i["kindsof"]].get(m, []) for m in nodes + ghosts},
            "ids": ids, "kinds": sorted(set(SETS[i["akinds"]]) | {"q"}), "up": SETS[i["initup"]] if i["mode"] == "activation" else [],
            "bulk": BULK if "bulk" in SETS[i["aids"]] else 0}


def setof(v):
    return sorted(v["#set"]) if isinstance(v, dict) and "#set" in v else v


def project(st, nodes):
    out = {}
    for n in nodes:
        out[n] = {"members": setof(st["members"][n]), "kinds": setof(st["kinds"][n]),
                  "activated": sorted(st["activated"][n]["#set"], key=lambda p: (p["k"], p["i"])),
                  "registry": sorted(list(x) for x in st["registry"][n]["#set"])}
    return out


def step_of(act, args, dst, nodes):
    s = {"act": act, "up": setof(dst["up"]), "state": project(dst, nodes),
         "events": sorted(dst["emitted"]["#set"], key=lambda e: (e["e"], e["n"], e["m"])), "ret": str(dst["lastop"]["ret"])}
    if act == "ProviderSnapshot":
        s.update(n=args[0], s=setof(args[1]), dup=bool(args[2]))
    elif act in ("HandleMembers", "Join", "Leave"):
        s.update(n=args[0])
    elif act == "ActivateTimeout":
        s.update(n=args[0], k=args[1], m=args[2])
    elif act == "Activate":
        s.update(n=args[0], k=args[1], i=args[2], m=args[3])
    elif act == "Deactivate":
        s.update(n=args[0], p=args[1])
    elif act == "ClusterSpawn":
        s.update(n=args[0], i=args[1])
    elif act == "Deliver":
        s.update(src=args[0], dst=args[1])
    return s


def run(prop, tier, replay):
    sc = vlib.Scratch(prop)
    try:
        ov = overlay.write_overlay(sc, "ov.json")
        binp = vlib.go_build(sc, "./cmd/clusterscen", "clusterscen", overlay=ov)
        if replay:
            rf = json.load(open(replay))
            p = sc.path("one.ndjson")
            open(p, "w").write(json.dumps(rf["config"]) + "\n" + json.dumps(rf["scenario"]) + "\n")
            pr = vlib.run([binp, "-in", p, "-workers", "1"], ok_codes=(0, 1))
            print(pr.stdout.strip()[:3000])
            return pr.returncode
        v = vlib.Verdict(prop, tier)
        cov = v.coverage
        cov.update({"scenarios": 0, "steps_executed": 0, "edges_total": 0, "edges_covered": 0, "exhaustive": True, "instances": []})
        v.assumptions += [
            "in-memory cluster: real engines, real agents, a provider stub (the driver hands the snapshots to the agent) and an actor.Remoter that captures outbound messages per (source, destination) FIFO; no sockets, no mDNS",
            "operations are issued at quiescence (C19 quantifies over quiescent histories); a member id keeps its host and kind set; a node that left does not rejoin",
        ]
        for name in PLAN[prop][tier]:
            r, gjson, nn, ne = graphs.dump_graph(sc, "MCCluster.tla", cfg_text(name), "cl_" + name)
            v.add_tlc(r, name)
            if r.violated:
                raise vlib.Broken("ClusterAgent.tla violates %s on %s: the model is wrong, not the code" % (r.violated, name))
            g = json.load(open(gjson))
            os.remove(gjson)
            hc = harness_config(name)
            nodes = hc["nodes"]
            scen = []
            covered = set()
            for path in scen_actor.cover_paths(g["nodes"], g["init"], g["edges"], seed=vlib.seed()):
                steps = [step_of(g["edges"][ei][2], g["edges"][ei][3], g["nodes"][g["edges"][ei][1]], nodes) for ei in path]
                covered.update(path)
                scen.append({"id": len(scen) + 1, "steps": steps})
            spath = sc.path("scen_%s.ndjson" % name)
            with open(spath, "w") as f:
                f.write(json.dumps(hc) + "\n")
                for s in scen:
                    f.write(json.dumps(s) + "\n")
            pr = vlib.run([binp, "-in", spath, "-workers", str(max(2, vlib.ncpu() // 2))], ok_codes=(0, 1), timeout=3000)
            rep = json.loads(pr.stdout)
            cov["scenarios"] += rep["scenarios"]
            cov["steps_executed"] += rep["steps"]
            cov["traces_validated_against_impl"] += rep["scenarios"]
            cov["edges_total"] += ne
            cov["edges_covered"] += len(covered)
            fails = rep["failures"] or []
            cov["instances"].append({"instance": name, "nodes": nn, "edges": ne, "scenarios": len(scen), "failures": len(fails)})
            for s in (rep["samples"] or [])[:1]:
                v.sample({"instance": name, "steps": s})
            hb = [f for f in fails if f["what"].startswith("harness:")]
            if hb:
                raise vlib.Broken("clusterscen: " + hb[0]["what"])
            for fl in fails[:3]:
                s = next(x for x in scen if x["id"] == fl["scenario"])
                rf = {"config": hc, "scenario": s, "what": fl["what"], "instance": name, "step": fl["step"]}
                tmp = sc.path("rf.ndjson")
                open(tmp, "w").write(json.dumps(hc) + "\n" + json.dumps(s) + "\n")
                ok = False
                for _ in range(8):
                    if vlib.run([binp, "-in", tmp, "-workers", "1"], ok_codes=(0, 1)).returncode == 1:
                        ok = True
                        break
                if not ok:
                    raise vlib.Broken("cluster failure did not reproduce: " + fl["what"])
                v.violation(rf, "%s [%s scenario %d step %d: %s]" % (fl["what"][:400], name, fl["scenario"], fl["step"], " ".join(fl["steps"][-6:])))
            if v.violations:
                break
        reg = {}
        for sw, want in REGRESSION[prop]:
            d = vlib.stage_specs(sc)
            open(os.path.join(d, "reg.cfg"), "w").write(cfg_text("act_2nodes_ops4", sw, maxops=5))
            r = vlib.tlc(sc, "MCCluster.tla", "reg.cfg", workers=4)
            reg[str(sw)] = r.violated or "NOT VIOLATED"
            if r.violated not in want:
                raise vlib.Broken("vacuity guard: switches %s should violate %s, got %s" % (sw, sorted(want), r.violated))
        cov["regression_configs"] = reg
        return v.finish()
    finally:
        sc.cleanup()


# ---------------------------------------------------------------------------- C20: self-managed provider

def prov_cfg(peers, maxops, fix=True, addall=True, hs=None, ls=None, xs=None, hist=False, alt="NoAlt"):
    b = lambda x: "TRUE" if x else "FALSE"
    full = {"P3": ("U3", "L3", "X3"), "P2": ("U2", "L2", "X2")}[peers]
    return ("CONSTANTS Self = \"A\" Peers <- %s Unknown = \"X\" MaxOps = %d FixUnknown = %s AddAll = %s HandshakeSet <- %s MemberLists <- %s UnreachSet <- %s KeepHist = %s AltHosts <- %s\n"
            "SPECIFICATION Spec\nINVARIANTS TypeOK C20_AgentTold C20_KeepsRunning C20_SelfStays\nPROPERTIES C20_Action\n" % (
                peers, maxops, b(fix), b(addall), hs or full[0], ls or full[1], xs or full[2], b(hist), alt))


def prov_step(act, args, dst):
    s = {"act": act, "members": setof(dst["members"]), "up": [], "state": {}, "events": [],
         "hosts": {m: dst["host"][m] for m in setof(dst["members"])}}
    if act == "Handshake":
        s.update(m=args[0], alt=bool(args[1]), reply=setof(dst["reply"]))
    elif act == "MembersMsg":
        s.update(l=setof(args[0]))
    else:
        s.update(addr=args[0])
    return s


def run20(prop, tier, replay):
    sc = vlib.Scratch(prop)
    try:
        # the barrier accessor (inbox of an actor empty and idle) is added for this harness only
        ov = overlay.write_overlay(sc, "ov.json", add_files={"actor/verif_quiet.go": os.path.join(vlib.HARNESS, "overlay_opt", "actor", "verif_quiet.go")})
        binp = vlib.go_build(sc, "./cmd/clusterscen", "clusterscen", overlay=ov, tags="verif,verifquiet")
        peers = ["G1", "G2", "G3"] if tier == "thorough" else ["G1", "G2"]
        hc = {"nodes": ["A"], "ghosts": ["G1", "G2", "G3"], "kindsOf": {"A": ["p"], "G1": ["p", "q"], "G2": ["q"], "G3": []}, "ids": [], "kinds": ["p"],
              "up": [], "provider": True}
        if replay:
            rf = json.load(open(replay))
            p = sc.path("one.ndjson")
            open(p, "w").write(json.dumps(rf["config"]) + "\n" + json.dumps(rf["scenario"]) + "\n")
            pr = vlib.run([binp, "-in", p, "-workers", "1"], ok_codes=(0, 1))
            print(pr.stdout.strip()[:3000])
            return pr.returncode
        v = vlib.Verdict(prop, tier)
        cov = v.coverage
        cov.update({"scenarios": 0, "steps_executed": 0, "edges_total": 0, "edges_covered": 0, "exhaustive": True})
        v.assumptions += [
            "a real SelfManaged provider (real Started: event child, subscription, mDNS announcer) next to a real agent on one engine whose Remoter captures outbound messages; "
            "handshakes and member lists are sent to the provider PID, unreachable reports are real RemoteUnreachableEvent broadcasts",
            "the provider's list is observed through the answer to a handshake (the complete member list) and through the agent's Members(); nothing listens on the node's address, so no peer discovered through mDNS can inject a message",
            "member hosts are pairwise different; the node's own address is never reported unreachable",
        ]
        scen = []
        ncov = ntot = 0
        plans = [("prov_full_%d" % len(peers), prov_cfg("P3" if len(peers) == 3 else "P2", 4 if tier == "thorough" else 3)),
                 # every input sequence of length 4 (5) over a small alphabet: the code may remember more than the member list
                 ("prov_seq", prov_cfg("P2", 5 if tier == "thorough" else 4, hs="Hs", ls="Ls", xs="Xs", hist=True)),
                 # a member that comes back under its id on a new address, late reports for the old one
                 ("prov_alt", prov_cfg("P2", 5 if tier == "thorough" else 4, hs="Hs", ls="Ls", xs="Xs", hist=True, alt="AltG1"))]
        for tag, ctext in plans:
            r, gjson, nn, ne = graphs.dump_graph(sc, "MCProvider.tla", ctext, tag, workers=4)
            v.add_tlc(r, tag)
            if r.violated:
                raise vlib.Broken("Provider.tla violates %s: the model is wrong, not the code" % r.violated)
            g = json.load(open(gjson))
            os.remove(gjson)
            covered = set()
            for path in scen_actor.cover_paths(g["nodes"], g["init"], g["edges"], seed=vlib.seed()):
                covered.update(path)
                scen.append({"id": len(scen) + 1, "steps": [prov_step(g["edges"][ei][2], g["edges"][ei][3], g["nodes"][g["edges"][ei][1]]) for ei in path]})
            ncov += len(covered)
            ntot += ne
        ne, covered = ntot, range(ncov)
        spath = sc.path("scen_prov.ndjson")
        with open(spath, "w") as f:
            f.write(json.dumps(hc) + "\n")
            for s in scen:
                f.write(json.dumps(s) + "\n")
        pr = vlib.run([binp, "-in", spath, "-workers", "4"], ok_codes=(0, 1), timeout=3000)
        rep = json.loads(pr.stdout)
        cov["scenarios"] = rep["scenarios"]
        cov["steps_executed"] = rep["steps"]
        cov["traces_validated_against_impl"] = rep["scenarios"]
        cov["edges_total"], cov["edges_covered"] = ne, len(covered)
        for s in (rep["samples"] or [])[:2]:
            v.sample({"inputs": s})
        fails = rep["failures"] or []
        hb = [f for f in fails if f["what"].startswith("harness:")]
        if hb:
            raise vlib.Broken("clusterscen: " + hb[0]["what"])
        for fl in fails[:3]:
            s = next(x for x in scen if x["id"] == fl["scenario"])
            rf = {"config": hc, "scenario": s, "what": fl["what"], "step": fl["step"]}
            tmp = sc.path("rf.ndjson")
            open(tmp, "w").write(json.dumps(hc) + "\n" + json.dumps(s) + "\n")
            if vlib.run([binp, "-in", tmp, "-workers", "1"], ok_codes=(0, 1)).returncode != 1:
                raise vlib.Broken("provider failure did not reproduce: " + fl["what"])
            v.violation(rf, "%s [scenario %d step %d: %s]" % (fl["what"][:400], fl["scenario"], fl["step"], " ".join(fl["steps"])))
        d = vlib.stage_specs(sc)
        reg = {}
        for name, kw, want in (("FixUnknown=FALSE", dict(fix=False), {"C20_KeepsRunning", "C20_AgentTold"}), ("AddAll=FALSE", dict(addall=False), {"C20_Action"})):
            open(os.path.join(d, "reg.cfg"), "w").write(prov_cfg("P2", 3, **kw))
            r = vlib.tlc(sc, "MCProvider.tla", "reg.cfg", workers=2)
            reg[name] = r.violated or "NOT VIOLATED"
        cov["regression_configs"] = reg
        if reg["FixUnknown=FALSE"] not in ("C20_KeepsRunning", "C20_AgentTold"):
            raise vlib.Broken("vacuity guard: FixUnknown=FALSE should violate C20_KeepsRunning, got %s" % reg["FixUnknown=FALSE"])
        return v.finish()
    finally:
        sc.cleanup()


CHECKS = {"C18": run, "C19": run, "C20": run20}
