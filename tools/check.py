#!/usr/bin/env python3
"""Entry point of every registered check: ./check <property> <tier> [--replay file]."""
import os
import sys
import traceback

sys.path.insert(0, os.path.dirname(os.path.abspath(__file__)))
import vlib  # noqa: E402


def families():
    import fam_ring, fam_inbox, fam_actor, fam_wire, fam_events, fam_reqresp, fam_cluster, fam_remote
    table = {}
    for mod in (fam_ring, fam_inbox, fam_actor, fam_wire, fam_events, fam_reqresp, fam_cluster, fam_remote):
        table.update(mod.CHECKS)
    return table


def main(argv):
    if len(argv) >= 2 and argv[1] == "setup":
        import setup
        return setup.main()
    if len(argv) >= 2 and argv[1] == "selftest":
        import selftest
        return selftest.main(argv[2:])
    if len(argv) < 3:
        print(__doc__)
        return vlib.EXIT_BROKEN
    prop, tier = argv[1], argv[2]
    if tier not in ("quick", "thorough"):
        tier = os.environ.get("VERIF_TIER", "quick")
    table = families()
    if prop not in table:
        print("no check registered for", prop)
        return vlib.EXIT_BROKEN
    replay = None
    if "--replay" in argv:
        replay = argv[argv.index("--replay") + 1]
    try:
        return table[prop](prop, tier, replay)
    except vlib.Broken as e:
        print("BROKEN property=%s: %s" % (prop, e))
        return vlib.EXIT_BROKEN
    except Exception:
        traceback.print_exc()
        print("BROKEN property=%s: internal error" % prop)
        return vlib.EXIT_BROKEN


if __name__ == "__main__":
    sys.exit(main(sys.argv))
