"""Parser for TLA+ values as printed by TLC (state dumps, -simulate files, counterexamples).

Mapping to Python/JSON:
  integers, strings, booleans          -> int, str, bool
  <<a, b>>                             -> [a, b]
  {a, b}                               -> {"#set": [a, b]}   (order as printed; TLC prints normalised)
  [f |-> v, ...]                       -> {"f": v, ...}
  (k :> v @@ k2 :> v2)                 -> {"str(k)": v, ...}  (keys stringified)
  bare identifiers (model values)      -> str
"""
import re

_tok = re.compile(r'''\s*(?:
    (?P<int>-?\d+)
  | (?P<str>"(?:[^"\\]|\\.)*")
  | (?P<op><<|>>|\|->|:>|@@|\.\.|[\[\]{}(),])
  | (?P<id>[A-Za-z_][A-Za-z0-9_!]*)
)''', re.X)


class ParseError(Exception):
    pass


def tokenize(s):
    pos = 0
    out = []
    n = len(s)
    while True:
        while pos < n and s[pos].isspace():
            pos += 1
        if pos >= n:
            break
        m = _tok.match(s, pos)
        if not m:
            raise ParseError("bad token at %d: %r" % (pos, s[pos:pos + 30]))
        pos = m.end()
        k = m.lastgroup
        out.append((k, m.group(k)))
    return out


def _unq(s):
    return s[1:-1].replace('\\"', '"').replace('\\\\', '\\')


class _P:
    def __init__(self, toks):
        self.t = toks
        self.i = 0

    def peek(self):
        return self.t[self.i] if self.i < len(self.t) else (None, None)

    def next(self):
        x = self.peek()
        self.i += 1
        return x

    def expect(self, v):
        k, x = self.next()
        if x != v:
            raise ParseError("expected %r got %r at token %d" % (v, x, self.i))

    def value(self):
        k, x = self.next()
        if k == 'int':
            v = int(x)
            if self.peek()[1] == '..':
                self.next()
                hi = self.value()
                return {"#set": list(range(v, hi + 1))}
            return v
        if k == 'str':
            return _unq(x)
        if k == 'id':
            if x == 'TRUE':
                return True
            if x == 'FALSE':
                return False
            return x
        if x == '<<':
            out = []
            if self.peek()[1] == '>>':
                self.next()
                return out
            while True:
                out.append(self.value())
                k2, x2 = self.next()
                if x2 == '>>':
                    return out
                if x2 != ',':
                    raise ParseError("in tuple: %r" % x2)
        if x == '{':
            out = []
            if self.peek()[1] == '}':
                self.next()
                return {"#set": out}
            while True:
                out.append(self.value())
                k2, x2 = self.next()
                if x2 == '}':
                    return {"#set": out}
                if x2 != ',':
                    raise ParseError("in set: %r" % x2)
        if x == '[':
            out = {}
            while True:
                k2, name = self.next()
                if k2 != 'id':
                    raise ParseError("record field: %r" % name)
                self.expect('|->')
                out[name] = self.value()
                k3, x3 = self.next()
                if x3 == ']':
                    return out
                if x3 != ',':
                    raise ParseError("in record: %r" % x3)
        if x == '(':
            out = {}
            while True:
                key = self.value()
                self.expect(':>')
                out[_key(key)] = self.value()
                k3, x3 = self.next()
                if x3 == ')':
                    return out
                if x3 != '@@':
                    raise ParseError("in function: %r" % x3)
        raise ParseError("unexpected %r" % x)


def _key(k):
    if isinstance(k, bool):
        return "TRUE" if k else "FALSE"
    if isinstance(k, (int, str)):
        return str(k)
    import json
    return json.dumps(k, sort_keys=True)


def parse_value(s):
    p = _P(tokenize(s))
    v = p.value()
    if p.i != len(p.t):
        raise ParseError("trailing tokens in %r" % s[:80])
    return v


_conj = re.compile(r'(?:^|\n)/\\ ')


def parse_state(text):
    """text: '/\\ x = 1\\n/\\ y = <<>>' (real newlines). Returns dict var -> value."""
    parts = [p for p in _conj.split(text) if p.strip()]
    out = {}
    for p in parts:
        name, _, val = p.partition(' = ')
        out[name.strip()] = parse_value(val)
    return out


_lab_unesc = re.compile(r'\\(.)')


def unescape_dot(s):
    return _lab_unesc.sub(lambda m: '\n' if m.group(1) == 'n' else m.group(1), s)


_node = re.compile(r'^(-?\d+) \[label="((?:[^"\\]|\\.)*)"')
_edge = re.compile(r'^(-?\d+) -> (-?\d+) \[label="((?:[^"\\]|\\.)*)"')
_act = re.compile(r'^([A-Za-z_][A-Za-z0-9_]*)(?:\((.*)\))?$')


def parse_dot(path, parse_states=True):
    """Returns (nodes: {id: state}, init: [id], edges: [(src, dst, action, [args])])."""
    nodes = {}
    init = []
    edges = []
    with open(path) as f:
        for line in f:
            m = _edge.match(line)
            if m:
                lab = unescape_dot(m.group(3))
                am = _act.match(lab)
                if not am:
                    raise ParseError("edge label %r" % lab)
                args = []
                if am.group(2) is not None and am.group(2).strip():
                    args = parse_value("<<" + am.group(2) + ">>")
                edges.append((m.group(1), m.group(2), am.group(1), args))
                continue
            m = _node.match(line)
            if m:
                nid = m.group(1)
                if nid not in nodes:
                    txt = unescape_dot(m.group(2))
                    nodes[nid] = parse_state(txt) if parse_states else txt
                if 'style = filled' in line[m.end():m.end() + 20]:
                    init.append(nid)
    return nodes, init, edges


if __name__ == '__main__':
    import sys, json
    n, i, e = parse_dot(sys.argv[1])
    json.dump({"nodes": n, "init": i, "edges": e}, sys.stdout)
