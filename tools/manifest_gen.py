#!/usr/bin/env python3
"""Writes MANIFEST.json from the table below (single source of truth for the interface)."""
import json
import os

VERIF = os.path.dirname(os.path.dirname(os.path.abspath(__file__)))

CHECKS = [
    dict(id="C01", engine="inbox-graph", technique="TLC exhaustive on Inbox.tla + B-graph edge-cover replay of the real Inbox/RingBuffer through scheduling gates",
         text="Inbox.tla is model-checked exhaustively (all interleavings of senders, Start and workers, batch splits) for NoDup/Order/NoForge/Complete; the real actor.Inbox and ringbuffer are then stepped along every edge of that state graph (each initial ring size) with the projected state compared after every atomic operation, so the code is shown step-for-step equivalent to the model on the instance. After any disagreement the gate schedules of the code itself are enumerated and judged by the delivery oracle only.",
         note="bounded instances (<=3 senders, <=3 messages, batch 1..2 via rewritten messageBatchSize); sequentially consistent interleavings; gate shims generated from the working tree",
         ref="4/C01, 2.2 B-graph"),
    dict(id="C02", engine="inbox-graph", technique="TLC exhaustive on Inbox.tla + B-graph edge-cover replay of the real Inbox through scheduling gates",
         text="Same binding as C01 with the overlap invariant (at most one goroutine between Invoke entry and exit, proc published first), including instances with a concurrent Stop; divergence triggers enumeration of the code's own gate schedules with the overlap oracle.",
         note="as C01; the happens-after clause of C02 (Go memory model) is outside a sequentially consistent TLA+ model",
         ref="4/C02"),
    dict(id="C03", engine="inbox-graph", technique="TLC exhaustive (safety + liveness under WF) on Inbox.tla + B-graph edge-cover replay incl. every terminal state",
         text="No-lost-wake-up as invariant (idle with backlog implies a pending schedule attempt), terminal-state predicate and liveness under weak fairness, checked exhaustively; every terminal node of the graph is reached on the real code and must be terminal there with an empty ring. A regression config (re-check removed) must fail in TLC.",
         note="as C01",
         ref="4/C03"),
    dict(id="C14", engine="ring-table", technique="TLC exhaustive on RingBuffer.tla (refinement to abstract FIFO) + B-table edge-cover of the real RingBuffer per initial capacity",
         text="The code's head/tail/mod/len arithmetic is modelled literally next to a ghost queue; TLC proves the refinement for every call sequence of the bounded instance and every initial capacity; the real RingBuffer[int] is driven along an edge cover of each graph (every reachable geometry x every call) and its API results are compared with the abstract queue's.",
         note="sequences with <= 6 (quick) / 9 (thorough) pushes, PopN(1..3/4), capacities 1..4 (quick) / up to 8 (thorough); element type int",
         ref="4/C14"),
]

NOT_YET = {
}

ALL = ["C%02d" % i for i in range(1, 21)]


def main():
    checks = []
    for c in CHECKS:
        checks.append({
            "property_id": c["id"],
            "quick_cmd": "./check %s quick" % c["id"],
            "thorough_cmd": "./check %s thorough" % c["id"],
            "evidence_file": "/verif/evidence/%s.json" % c["id"],
            "replay_cmd_template": "./check %s quick --replay {path}" % c["id"],
            "engine": c["engine"],
            "level_claimed": {"category": "model_checking", "text": c["text"], "design_ref": "DESIGN.md section " + c["ref"]},
            "level_note": c["note"],
            "technique": c["technique"],
        })
    claimed = {c["id"] for c in CHECKS}
    na = [{"property_id": p, "reason": NOT_YET.get(p, "check not built yet in this session (planned: see DESIGN.md section 4); nothing is claimed for it")}
          for p in ALL if p not in claimed]
    m = {
        "version": 1,
        "setup_cmd": "./check setup",
        "hooks": {
            "guard": "verif",
            "enable": "go build -tags verif -overlay <generated overlay.json>: accessor files and gate shims are ADDED at build time from /verif/harness/overlay; no file of /repo is modified for instrumentation",
            "baseline_off_cmd": "cd /repo && go test -vet=off -count=1 -timeout 25m ./...",
            "source_commits": [],
            "add_only": True,
        },
        "engines": [
            {"name": "inbox-graph", "path": "harness/cmd/inboxgraph", "serves_properties": ["C01", "C02", "C03"],
             "kind_free_text": "TLC state graph of Inbox.tla replayed edge by edge on the real Inbox through gate shims (B-graph)"},
            {"name": "ring-table", "path": "harness/cmd/ringtable", "serves_properties": ["C14"],
             "kind_free_text": "TLC state graph of RingBuffer.tla driven on the real RingBuffer, API results compared (B-table)"},
        ],
        "checks": checks,
        "notes": "Technique family: explicit TLA+ specifications checked with TLC, bound to the code by conformance (graph replay, scenario replay, table replay, trace validation). See DESIGN.md.",
        "not_applicable": na,
    }
    with open(os.path.join(VERIF, "MANIFEST.json"), "w") as f:
        json.dump(m, f, indent=1)
    print("MANIFEST.json: %d checks, %d not claimed" % (len(checks), len(na)))


if __name__ == "__main__":
    main()
