#!/usr/bin/env python3
"""Writes MANIFEST.json from the table below (single source of truth for the interface)."""
import json
import os

VERIF = os.path.dirname(os.path.dirname(os.path.abspath(__file__)))

CHECKS = [
    dict(id="C01", engine="inbox-graph", technique="TLC exhaustive on Inbox.tla + B-graph edge-cover replay of the real Inbox/RingBuffer through scheduling gates; TLC exhaustive on Route.tla (public send / forward / respond / request paths) + B-table on a real engine",
         text="Inbox.tla is model-checked exhaustively (all interleavings of senders, Start and workers, batch splits) for NoDup/Order/NoForge/Complete; the real actor.Inbox and ringbuffer are then stepped along every edge of that state graph (each initial ring size) with the projected state compared after every atomic operation, so the code is shown step-for-step equivalent to the model on the instance. After any disagreement the gate schedules of the code itself are enumerated and judged by the delivery oracle only. Engine level: Route.tla enumerates every entry (Engine.Send, SendWithSender with and without a sender, Request) x script of up to 2 (quick) / 3 (thorough) hops (Context.Forward, Context.Send, Context.Respond, unregistered targets); each is executed on a real engine and every delivery (receiver, message, sender seen by the receiver, order), every dead letter (target, message, sender) and the value returned by Result() are compared with TLC's.",
         note="bounded instances (<=3 senders, <=3 messages, batch 1..2 via rewritten messageBatchSize); sequentially consistent interleavings; gate shims generated from the working tree",
         ref="4/C01, 2.2 B-graph"),
    dict(id="C02", engine="inbox-graph", technique="TLC exhaustive on Inbox.tla + B-graph edge-cover replay of the real Inbox through scheduling gates",
         text="Same binding as C01 with the overlap invariant (at most one goroutine between Invoke entry and exit, proc published first), including instances with a concurrent Stop; divergence triggers enumeration of the code's own gate schedules with the overlap oracle.",
         note="as C01; the happens-after clause of C02 (Go memory model) is outside a sequentially consistent TLA+ model",
         ref="4/C02"),
    dict(id="C03", engine="inbox-graph", technique="TLC exhaustive (safety + liveness under WF) on Inbox.tla + B-graph edge-cover replay incl. every terminal state",
         text="No-lost-wake-up as invariant (idle with backlog implies a pending schedule attempt), terminal-state predicate and liveness under weak fairness, checked exhaustively; every terminal node of the graph is reached on the real code and must be terminal there with an empty ring. A regression config (re-check removed) must fail in TLC.",
         note="as C01",
         ref="4/C03"),
    dict(id="C04", engine="actor-scenario", technique="TLC exhaustive on Actor.tla + B-scenario: every behaviour of an edge cover of the scenario-refinement state graph replayed on the real engine with gated deliveries; recorded histories judged by TLC (ActorTrace.tla)",
         text="Actor.tla (process.Start / Invoke / recover / tryRestart / cleanup phases, restart buffer, inbox status, children table) is model-checked for the lifecycle grammar over every placement of panics, pills and sends; an edge cover of the scenario refinement is replayed on the real engine (every Receive gated, faults injected where the behaviour says) and the recorded delivery log must satisfy the same TLA+ predicate (InitFirst, StartedSecond, StoppedLast, IncOrder, SpawnRet), evaluated by TLC.",
         note="bounded instances (<= 3 actors, <= 3 messages, <= 2 stop requests, <= 2 panics, MaxRestarts 0..2), including succession (the final Stopped handler spawns a successor under the same id while messages are left in the old inbox) and a panicking Stopped handler; gating through Receive only; environment actions issued at settled states; after the last step the harness keeps watching for deliveries the behaviour does not predict and logs them",
         ref="4/C04, 2.2 B-scenario"),
    dict(id="C05", engine="actor-scenario", technique="TLC exhaustive on Actor.tla + B-scenario replay with injected panics; histories judged by TLC (ActorTrace.tla: AtMostOnce, InOrder, RestartsNumbered, Complete, witness)",
         text="Every position of a panic (Initialized, Started, any message of a batch, inside a graceful drain, during replay of the restart buffer) is enumerated by TLC; each behaviour is replayed on the real engine and the recorded history must show no redelivery, original order, correctly numbered ActorRestartedEvents, completeness at quiescence and a live witness actor / process.",
         note="as C04; restart delay 50us; a process death is observed by the parent check process",
         ref="4/C05"),
    dict(id="C06", engine="actor-scenario", technique="TLC exhaustive on Actor.tla + B-scenario replay; histories judged by TLC (RestartsBounded, Exhausted => unregistered incl. descendants, witness alive)",
         text="MaxRestarts in {0,1,2} with the exhausting panic in a first batch, in Started and in the replay of the restart buffer, with and without children; replayed on the real engine; process death of the harness is a recorded outcome.",
         note="as C04",
         ref="4/C06"),
    dict(id="C07", engine="actor-scenario", technique="TLC exhaustive on Actor.tla + B-scenario replay; histories judged by TLC (DoneAfterStop, Drained, AllDone, KindsKnown) with TLA+-evaluated known-finding signatures; TLC exhaustive on StopWait.tla (lock level: concurrent Stop / Poison callers registering while the process stops) + B-graph edge-cover replay through gate shims",
         text="Stop/Poison tokens racing sends, crashes, restarts and parent shutdown; stop contexts are polled at every step and inside every delivery; the recorded history must satisfy done => Stopped handled and unregistered, drained-before-done for the token acted on, every token done at quiescence, pills never visible. The strict predicates are evaluated as well: they may fail only with the signatures listed in KNOWN_FINDINGS.txt.",
         note="as C04; 'never done' is decided at quiescence of the scenario (no gate pending, settle interval elapsed)",
         ref="4/C07"),
    dict(id="C08", engine="actor-scenario", technique="TLC exhaustive on Actor.tla (trees) + B-scenario replay with cross-actor gate order forced; histories judged by TLC (KidsFirst, ChildrenExact, NotDoneEarly, Parent)",
         text="Chain of three, parent with two children, parent-child with crashes: shutdown of the root interleaved with children stopping, crashing and third-party poison; Children(), Parent(), registry look-ups of all descendants and done contexts are observed inside every delivery.",
         note="as C04; trees up to depth 3 / fan-out 2",
         ref="4/C08"),
    dict(id="C09", engine="event-scenario", technique="TLC exhaustive on EventStream.tla + B-scenario: every maximal operation sequence exported by TLC with the per-subscriber logs it computed, replayed on a real engine (cmd/evscen)",
         text="EventStream.tla models the stream actor's Receive one message per step together with the dead-letter path of SendLocal and the missing-remote path of send; TLC enumerates all sequences of subscribe / unsubscribe / broadcast / subscriber-stops / send to nil, never spawned, stopped and foreign targets with nil and non-nil senders, checks finiteness (no dead-letter chains; liveness: the stream's inbox drains) and computes what every subscriber must see; each sequence is executed on a real engine and every subscriber's recorded log of DeadLetterEvent / EngineRemoteMissingEvent (target, message id, sender) must equal TLC's. A send that blocks, or events that keep flowing after the last operation, are violations.",
         note="<= 4 (quick) / 5 (thorough) operations, 2 subscribers, one stopped-but-subscribed actor at a time; operations issued from one driver goroutine at quiescence",
         ref="4/C09"),
    dict(id="C10", engine="actor-scenario", technique="TLC exhaustive on Actor.tla with SpawnAgain (duplicate spawn while registered, respawn after stop) + B-scenario replay; histories judged by TLC (T_C10)",
         text="Spawn of an id that was spawned before is an environment action of Actor.tla: while the actor is registered it must publish ActorDuplicateIdEvent and change nothing (Producer not run, pending messages delivered once and in order), after the actor has gone it starts a fresh process. Replayed at every settled point of the lifecycle (before Started, with messages pending, during a graceful drain, after a crash). The recorded histories must satisfy: an actor handling anything but its final Stopped is resolvable through Registry.GetPID, every new incarnation follows a Stopped one, one DuplicateIdEvent per duplicate spawn, Producer invocations = incarnations seen.",
         note="engine-level histories are sequential (spawns issued at settled states; plus succession: a successor spawned under the same id from inside the predecessor's final Stopped handler); concurrent Spawn / Spawn / Remove / get of one id racing inside the registry are covered at lock level: Registry.tla (one action per critical section of registry.go) is explored exhaustively and every edge of its graph is replayed on the real Registry through gate shims (cmd/regconc); 2-3 threads, 1 id",
         ref="4/C10"),
    dict(id="C11", engine="reqresp-scenario", technique="TLC exhaustive on ReqResp.tla + B-scenario replay of every maximal history (cmd/reqscen); deadline races by a free-running stress judged by the clauses that hold for either outcome",
         text="ReqResp.tla models Request (one-shot Response under a fresh PID), replies into the one-slot channel or to dead letter, Result returning a reply or timing out and unregistering either way; TLC checks correlation, unregistration and late-reply-is-dead-letter over all histories of 2..3 concurrent requests with 0..3 replies each placed before / during / after Result, and exports each history with its outcomes; each is executed on a real engine (real timeouts) and outcomes, dead letters, registry state and 'no timeout before the deadline' are compared. Regression configs (fixed response PID; unregister only on timeout) must fail in TLC.",
         note="replies are placed clearly on one side of the deadline in the scenarios; a second reply that would block the responder on the full channel is not generated; the deadline race itself is exercised free-running with both outcomes accepted",
         ref="4/C11"),
    dict(id="C12", engine="event-scenario", technique="TLC exhaustive on EventStream.tla + B-scenario replay (cmd/evscen); lifecycle events: published events of the Actor.tla scenarios compared with the model's (cmd/actorscen)",
         text="All sequences of Subscribe / Unsubscribe (with the subscribed PID object or an equal copy) and BroadcastEvent from two broadcaster goroutines over two subscribers are enumerated by TLC, which checks got = want for the abstract by-value subscription and exports the expected per-subscriber logs; each sequence is replayed on a real engine and the recorded logs must be equal (exactly once, broadcast order, nothing after Unsubscribe, no duplicates on double Subscribe). The engine's own lifecycle events are checked on the steered Actor.tla scenarios: the multiset of started / stopped / restarted / max-restarts / dead-letter events seen by a subscribed monitor must equal the model's.",
         note="sequenced broadcasters (issue order = inbox order); <= 4/5 operations; lifecycle part restricted to steered, non-racy scenarios",
         ref="4/C12"),
    dict(id="C13", engine="actor-scenario", technique="TLC exhaustive on Actor.tla (per-call-site chain bit) + B-scenario replay with recording middleware chains of length 0..3",
         text="Every delivery of every behaviour (spawn, user, stop, poison, crash recover, restart, budget exhausted) must have passed through the configured chain exactly once, in order; checked by TLC on the recorded histories.",
         note="as C04; chain lengths 0..3 rotate over scenarios",
         ref="4/C13"),
    dict(id="C14", engine="ring-table", technique="TLC exhaustive on RingBuffer.tla (refinement to abstract FIFO) + B-table edge-cover of the real RingBuffer per initial capacity; TLC exhaustive on RingConc.tla (lock-level, concurrent producers/consumer) + B-graph edge-cover replay through gate shims",
         text="The code's head/tail/mod/len arithmetic is modelled literally next to a ghost queue; TLC proves the refinement for every call sequence of the bounded instance and every initial capacity; the real RingBuffer[int] is driven along an edge cover of each graph (every reachable geometry x every call) and its API results are compared with the abstract queue's.",
         note="sequential: sequences with <= 6 (quick) / 9 (thorough) pushes, PopN(1..3/4), capacities 1..4 (quick) / up to 8 (thorough); element type int; retained PopN batches are re-read after later pushes (no aliasing). Concurrent: RingConc.tla models every lock acquire/release and atomic of Push/Pop/PopN/Len with 2-3 threads; every edge of its graph is replayed on the real RingBuffer through gate shims for sync.Mutex and atomic (cmd/ringconc)",
         ref="4/C14"),
    dict(id="C15", engine="wire-table", technique="TLC exhaustive on Wire.tla (writer loop + reader loop) over all bounded batches; every case exported by TLC with its expected deliveries and run through the real writer, vtproto marshal/unmarshal, reader and SendLocal (B-table)",
         text="Wire.tla models streamWriter.Invoke (type / sender / target tables, per-message indices, serialise failure) and streamReader.Receive one loop iteration per action; TLC checks Decode(Encode(batch)) = the serialisable elements in order for every batch of the bounded space and exports each batch with the expected delivery list; each is executed on the real code and only API-visible results (order, target address+id, type, payload, sender, no panic) are compared. Regression configs with each repair switched off must fail in TLC.",
         note="batches of length <= 2 (quick) / <= 4 (thorough) over 3 targets, 4 senders (nil, plain, split-collision pair), 2 types, 2 payloads, 2 kinds of unserialisable payload; in-memory stream instead of dRPC",
         ref="4/C15, 2.2 B-table"),
    dict(id="C16", engine="wire-table", technique="TLC exhaustive on Wire.tla (hostile mode: arbitrary envelope values) + B-table replay of every envelope through real MarshalVT/UnmarshalVT and streamReader.Receive",
         text="Every envelope of the bounded value space (tables of size 0..2, every index in {-2,-1,0,1,2,MaxInt32}, unknown type names, undecodable payloads, 1..2 messages) is decoded by the model and by the real reader; the real reader must not panic, must deliver exactly the prefix of messages whose own indices are valid (to Targets[ti] with TypeNames[tni]) and must end the stream with an error exactly when the model does.",
         note="quantifies over Envelope values, not raw byte strings (robustness of the generated UnmarshalVT against arbitrary bytes is not claimed); the dRPC server is replaced by an in-memory stream, so 'the node exits' is observed as a panic escaping Receive; multi-envelope streams (an earlier envelope's tables must not leak into the next); concurrent inbound streams run a sample of the cases on parallel readers under the Go race detector (a reported race or a cross-stream delivery is a violation)",
         ref="4/C16"),
    dict(id="C18", engine="cluster-scenario", technique="TLC exhaustive on ClusterAgent.tla (membership mode) + B-scenario: edge cover of the state graph replayed on a real Agent, API-visible state compared after every step",
         text="Every pair (current view, next snapshot) over the node itself plus three further members with different kind sets, with and without duplicated entries, in sequences of up to 3 (quick) / 4 (thorough) snapshots is enumerated by TLC, which checks 'view = snapshot', 'one join event per new member, one leave event per dropped member, none for the others' (action property) and 'HasKind(k) iff a member of the view advertises k'; each edge is executed on a real Agent (snapshots sent as *Members to the agent PID) and Members(), HasKind() for every kind and the join / leave events seen by a subscribed monitor must equal TLC's.",
         note="a member id keeps its kind set and host; every snapshot contains the observing node (as every provider guarantees)",
         ref="4/C18"),
    dict(id="C19", engine="cluster-scenario", technique="TLC exhaustive on ClusterAgent.tla (activation mode: all arrival orders of the notifications of each operation) + B-scenario replay on an in-memory multi-node cluster of real engines and agents",
         text="Operations activate / deactivate / cluster-spawn / join / leave are issued at quiescence on 2..3 nodes with different kind sets and scripted select functions; TLC explores every interleaving of the resulting agent-to-agent deliveries (FIFO per link) and checks agreement of all members at quiescence with what is alive, uniqueness of an id across the cluster and placement on a capable member; an edge cover of the graph is replayed on real engines / agents connected by a capturing Remoter, and after every step Members, HasKind, GetActiveByID, Registry.GetPID and the cluster events of every member are compared with TLC's state, as is the value Activate returned. Regression configs (no purge on leave, no topology to a joiner, no duplicate check) must fail in TLC.",
         note="quiescent histories only (as the property states); the copy of a broadcast an agent sends to itself is handled within the operation; a node that left does not rejoin; the ActivationRequest round trip is atomic (the agent blocks on it); 2-3 real members, <= 2 ids per kind, plus one instance in which the model id `bulk` stands for a block of 1100 actors (large topology at a join)",
         ref="4/C19"),
    dict(id="C20", engine="cluster-scenario", technique="TLC exhaustive on Provider.tla + B-scenario: an edge cover over the full input alphabet and every input sequence of length 4..5 over a small alphabet, driven into a real SelfManaged provider next to a real agent",
         text="Provider.tla models SelfManaged.Receive (Handshake: add, answer with the complete list, report; Members: add all, report; unreachable: remove exactly the member with that host, report, an unknown address changes nothing, the provider keeps running); TLC checks the action property and the invariants and its state graph is replayed on a real provider actor (real Started: event child, event-stream subscription, mDNS announcer) whose unreachable reports are real RemoteUnreachableEvent broadcasts; after every input the provider's member list (observed as the answer to a handshake), the agent's Members() and the absence of an ActorRestartedEvent for the provider are compared with TLC's state. The regression config with the nil dereference must fail in TLC.",
         note="member hosts pairwise different at any one time; a member is identified by its id and may come back under a second address (AltHosts), reports for its old address then change nothing; every behaviour is run twice, once with a probing handshake after each input and once leaving the provider alone (asking is an input too); the node's own address is never reported unreachable; nothing listens on the node's address, so peers found by mDNS cannot inject messages; the child -> provider hop after an unreachable report is awaited by polling the provider's list (2 s)",
         ref="4/C20"),
    dict(id="C17", engine="remote-scenario", technique="TLC exhaustive on RemoteLink.tla + B-scenario: every maximal operation sequence replayed on two real engines connected by real remotes over loopback TCP (cmd/remotescen)",
         text="RemoteLink.tla models the router's one-writer-per-address table and the writer's life (dial, connected, unreachable -> shutdown, event to the router, dead letters until the router has seen it) at the grain of operations awaited to quiescence: bursts from sender goroutines, requests answered by the peer, peer down (Remote.Stop().Wait()), a fresh peer up on the same address, Start / Stop called twice. TLC checks delivered-or-dead-lettered-never-both, per-sender order, a fresh attempt after an unreachable episode (action property), replies and reporting, and exports every sequence with the state expected after each step; each sequence runs on real TCP and the harness compares delivered bursts (exactly once, in order, right sender PID, on the right incarnation of the peer), dead letters (count and original target / sender through the unwrapped streamDeliver), RemoteUnreachableEvents, answers, and that a stopped remote refuses connections. The regression config (router never forgets a dead writer) must fail in TLC.",
         note="phase-level steps (interleavings inside a burst are whatever the run produces; first-contact bursts are 20000 messages so that the hand-over overlaps the dial); connection loss in mid-stream is outside the property; timing constants (dial back-off, idle deadline) are not verified; one peer that goes down and comes back plus a second peer that is up all the time (isolation of the per-address writers); free-running rounds of traffic during an outage (96 quick / 480 thorough) judged by C17_FreshAttempt",
         ref="4/C17"),
]

NOT_YET = {
}

ALL = ["C%02d" % i for i in range(1, 21)]


def main():
    checks = []
    for c in CHECKS:
        checks.append({
            "property_id": c["id"],
            "quick_cmd": "./check %s quick" % c["id"],
            "thorough_cmd": "./check %s thorough" % c["id"],
            "evidence_file": "/verif/evidence/%s.json" % c["id"],
            "replay_cmd_template": "./check %s quick --replay {path}" % c["id"],
            "engine": c["engine"],
            "level_claimed": {"category": "model_checking", "text": c["text"], "design_ref": "DESIGN.md section " + c["ref"]},
            "level_note": c["note"],
            "technique": c["technique"],
        })
    claimed = {c["id"] for c in CHECKS}
    na = [{"property_id": p, "reason": NOT_YET.get(p, "check not built yet in this session (planned: see DESIGN.md section 4); nothing is claimed for it")}
          for p in ALL if p not in claimed]
    m = {
        "version": 1,
        "setup_cmd": "./check setup",
        "hooks": {
            "guard": "verif",
            "enable": "go build -tags verif -overlay <generated overlay.json>: accessor files (harness/overlay_pkg: remote/verif_wire.go for every build; harness/overlay_opt: actor/verif_quiet.go for the C20 harness only, actor/verif_stopwait.go for the C07 lock-level harness only) and gate shims (generated from the working tree's sources) are ADDED at build time from /verif/harness; no file of /repo is modified for instrumentation",
            "baseline_off_cmd": "cd /repo && go test -vet=off -count=1 -timeout 25m ./...",
            "source_commits": [],
            "add_only": True,
        },
        "engines": [
            {"name": "inbox-graph", "path": "harness/cmd/inboxgraph", "serves_properties": ["C01", "C02", "C03"],
             "kind_free_text": "TLC state graph of Inbox.tla replayed edge by edge on the real Inbox through gate shims (B-graph)"},
            {"name": "actor-scenario", "path": "harness/cmd/actorscen", "serves_properties": ["C04", "C05", "C06", "C07", "C08", "C10", "C13"],
             "kind_free_text": "TLC behaviours of Actor.tla replayed on the real engine with gated deliveries; histories validated by TLC against ActorProps.tla (B-scenario)"},
            {"name": "event-scenario", "path": "harness/cmd/evscen", "serves_properties": ["C09", "C12"],
             "kind_free_text": "operation sequences of EventStream.tla replayed on a real engine with recording subscribers (B-scenario)"},
            {"name": "reqresp-scenario", "path": "harness/cmd/reqscen", "serves_properties": ["C11"],
             "kind_free_text": "request/response histories of ReqResp.tla replayed on a real engine (B-scenario) + deadline-race stress"},
            {"name": "cluster-scenario", "path": "harness/cmd/clusterscen", "serves_properties": ["C18", "C19", "C20"],
             "kind_free_text": "behaviours of ClusterAgent.tla replayed on an in-memory cluster of real engines and agents (B-scenario)"},
            {"name": "remote-scenario", "path": "harness/cmd/remotescen", "serves_properties": ["C17"],
             "kind_free_text": "operation sequences of RemoteLink.tla replayed on two real engines over loopback TCP (B-scenario)"},
            {"name": "wire-table", "path": "harness/cmd/wiretable", "serves_properties": ["C15", "C16"],
             "kind_free_text": "cases enumerated by TLC from Wire.tla executed on the real stream writer / reader (B-table)"},
            {"name": "stop-conc", "path": "harness/cmd/stopconc", "serves_properties": ["C07"],
             "kind_free_text": "TLC state graph of StopWait.tla stepped through the shimmed process.go (stop-waiter registration and release), outcome judged by the property (B-graph)"},
            {"name": "route-table", "path": "harness/cmd/routetable", "serves_properties": ["C01"],
             "kind_free_text": "entries x scripts enumerated by TLC from Route.tla executed on a real engine, per-actor deliveries / dead letters / Result() compared (B-table)"},
            {"name": "ring-table", "path": "harness/cmd/ringtable", "serves_properties": ["C14"],
             "kind_free_text": "TLC state graph of RingBuffer.tla driven on the real RingBuffer, API results compared (B-table)"},
        ],
        "checks": checks,
        "notes": "Technique family: explicit TLA+ specifications checked with TLC, bound to the code by conformance (graph replay, scenario replay, table replay, trace validation). See DESIGN.md.",
        "not_applicable": na,
    }
    with open(os.path.join(VERIF, "MANIFEST.json"), "w") as f:
        json.dump(m, f, indent=1)
    print("MANIFEST.json: %d checks, %d not claimed" % (len(checks), len(na)))


if __name__ == "__main__":
    main()
