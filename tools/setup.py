"""MANIFEST.setup_cmd: parse every specification and warm the Go build cache (offline)."""
import glob
import os
import subprocess
import shutil

import overlay
import vlib


def main():
    sc = vlib.Scratch("setup")
    try:
        d = vlib.stage_specs(sc)
        bad = 0
        for f in sorted(glob.glob(os.path.join(d, "*.tla"))):
            try:
                vlib.sany(f)
            except vlib.Broken as e:
                print(e)
                bad += 1
        if not os.path.exists(os.path.join(vlib.HARNESS, "go.sum")) or True:
            shutil.copy(os.path.join(vlib.REPO, "go.sum"), os.path.join(vlib.HARNESS, "go.sum"))
        # (the accessor files that single harnesses need on top of the common ones are part of this overlay)
        opt = os.path.join(vlib.HARNESS, "overlay_opt")
        extra = {}
        for pkg in sorted(os.listdir(opt)) if os.path.isdir(opt) else []:
            for f in sorted(os.listdir(os.path.join(opt, pkg))):
                if f.endswith(".go"):
                    extra[os.path.join(pkg, f)] = os.path.join(opt, pkg, f)
        ov = overlay.write_overlay(sc, "ov.json", add_files=extra)
        # warm the cache: repository packages + every harness command that builds without generated files
        vlib.go(["build", "./..."], cwd=vlib.REPO, check=False)
        for cmd in sorted(os.listdir(os.path.join(vlib.HARNESS, "cmd"))):
            p = vlib.go(["build", "-tags", "verif", "-overlay", ov, "-o", sc.path("bin_" + cmd), "./cmd/" + cmd], check=False)
            if p.returncode != 0:
                print("setup: build of cmd/%s failed:\n%s" % (cmd, p.stdout[-1500:]))
                bad += 1
        print("setup: %s" % ("ok" if not bad else "%d problem(s)" % bad))
        return 0 if not bad else 2
    finally:
        sc.cleanup()
