"""C01, C02, C03 -- inbox scheduling protocol.  Inbox.tla (TLC, exhaustive) bound to the real
actor.Inbox + ringbuffer by B-graph edge-cover replay; free-running B-trace part in fam_engine."""
import json
import os

import graphs
import overlay
import vlib

INSTANCES = {
    # name: senders, msgs per sender, worker slots, batch size, concurrent Stop
    "2x1b2": (["s1", "s2"], 1, 4, 2, False),
    "1x2b1": (["s1"], 2, 4, 1, False),
    "1x3b2": (["s1"], 3, 5, 2, False),
    "1x3b1": (["s1"], 3, 5, 1, False),
    "1x5b3": (["s1"], 5, 7, 3, False),
    "1x4b1": (["s1"], 4, 6, 1, False),     # a worker run of more than `throughput` (rewritten to 1) iterations with a backlog left
    "2x1b2stop": (["s1", "s2"], 1, 4, 2, True),
    "2x2b2": (["s1", "s2"], 2, 6, 2, False),
    "2x2b1": (["s1", "s2"], 2, 6, 1, False),
    "3x1b2": (["s1", "s2", "s3"], 1, 5, 2, False),
    "2x2b2stop": (["s1", "s2"], 2, 6, 2, True),
}
PLAN = {
    "quick": {"C01": ["2x1b2", "1x2b1", "1x3b2", "1x3b1"], "C02": ["2x1b2", "2x1b2stop", "1x2b1", "1x4b1"], "C03": ["2x1b2", "1x2b1", "1x3b2"]},
    "thorough": {"C01": ["2x1b2", "1x2b1", "1x3b2", "1x3b1", "1x5b3", "2x2b2", "2x2b1", "3x1b2"],
                 "C02": ["2x1b2", "2x1b2stop", "1x2b1", "1x3b1", "1x4b1", "2x2b2", "2x2b2stop", "3x1b2"],
                 "C03": ["2x1b2", "1x2b1", "1x3b2", "2x2b2", "2x2b1", "3x1b2"]},
}
RING_SIZES = {"quick": [1, 2, 3, 4], "thorough": [1, 2, 3, 4, 7]}
RING_ONLY = {"1x5b3": [4, 5], "1x4b1": [1, 4]}      # a batch of three popped without wrapping, then pushes that wrap around without growing
INVS = "TypeOK C02_NoOverlap C02_ProcSet C03_NoLostWakeup C03_Terminal C01_NoDup C01_Order C01_NoForge C01_Complete"


def cfg_text(inst, recheck=True, live=True):
    senders, nmsg, slots, batch, stop = INSTANCES[inst]
    s = "CONSTANTS Senders = {%s} NMsg = %d WSlots <- W%d Batch = %d WithStart = TRUE WithStop = %s Recheck = %s\n" % (
        ",".join('"%s"' % x for x in senders), nmsg, slots, batch, "TRUE" if stop else "FALSE",
        "TRUE" if recheck else "FALSE")
    s += "SPECIFICATION Spec\nINVARIANTS " + INVS + "\n"
    if live:
        s += "PROPERTIES C03_Live\n"
    return s


def build_driver(sc, batch):
    shim, rep = overlay.shim_file(sc, "actor/inbox.go", ["sync/atomic", overlay.MOD + "/ringbuffer"],
                                  {"messageBatchSize": str(batch), "defaultThroughput": "1"}, tag="b%d_" % batch)
    ov = overlay.write_overlay(sc, "ov_inbox_b%d.json" % batch, {"actor/inbox.go": shim})
    if "messageBatchSize" not in rep.get("consts", []):
        raise vlib.Broken("messageBatchSize constant not found in actor/inbox.go; cannot scale the batch size")
    return vlib.go_build(sc, "./cmd/inboxgraph", "inboxgraph_b%d" % batch, overlay=ov), rep


def inst_config(inst, ring):
    senders, nmsg, slots, batch, stop = INSTANCES[inst]
    return {"Senders": senders, "NMsg": nmsg, "Slots": ["w%d" % i for i in range(1, slots + 1)],
            "WithStart": True, "WithStop": stop, "RingSize": ring}


def run(prop, tier, replay):
    sc = vlib.Scratch(prop)
    try:
        if replay:
            return do_replay(sc, prop, replay)
        return do_check(sc, prop, tier)
    finally:
        sc.cleanup()


def do_replay(sc, prop, path):
    rf = json.load(open(path))
    if rf.get("kind") == "route":
        import fam_route
        return fam_route.replay(sc, rf)
    binp, _ = build_driver(sc, rf["batch"])
    p = vlib.run([binp, "-replay", path], ok_codes=(0, 1))
    print(p.stdout.strip())
    return p.returncode


def do_check(sc, prop, tier):
    v = vlib.Verdict(prop, tier)
    v.assumptions += [
        "sequentially consistent interleavings of the gated operations (atomics on procStatus, ring calls, Invoke entry/exit); weak-memory effects are outside TLA+ and are covered only by the -race free run",
        "the ring is one atomic step per call at this level (its own mutex protocol: C14)",
        "instances are bounded (<= 3 senders, <= 3 messages, batch size scaled to 1..2 by rewriting messageBatchSize in the shimmed copy)",
    ]
    drivers = {}
    cov = v.coverage
    cov.update({"edges_total": 0, "edges_covered": 0, "gate_steps": 0, "terminal_nodes_reached": 0,
                "instances": [], "exhaustive": True})
    nonconf = []
    found = []
    for inst in PLAN[tier][prop]:
        senders, nmsg, slots, batch, stop = INSTANCES[inst]
        r, gjson, nn, ne = graphs.dump_graph(sc, "MCInbox.tla", cfg_text(inst), "inbox_" + inst)
        v.add_tlc(r, inst)
        if r.violated:
            raise vlib.Broken("Inbox.tla violates %s on instance %s: the model is wrong, not the code" % (r.violated, inst))
        if batch not in drivers:
            drivers[batch] = build_driver(sc, batch)[0]
        rings = RING_ONLY.get(inst, RING_SIZES[tier])

        def one_ring(ring):
            cfg = inst_config(inst, ring)
            p = vlib.run([drivers[batch], "-graph", gjson, "-config", json.dumps(cfg), "-seed", str(vlib.seed() + ring),
                          "-explore-budget", "120s" if tier == "quick" else "600s"], timeout=3000)
            return ring, cfg, json.loads(p.stdout)

        # the initial ring capacities of one instance are independent runs: side by side
        from concurrent.futures import ThreadPoolExecutor
        with ThreadPoolExecutor(max_workers=min(len(rings), max(2, vlib.ncpu() // 3))) as ex:
            reps = list(ex.map(one_ring, rings))
        for ring, cfg, rep in reps:
            if rep.get("error"):
                raise vlib.Broken("inboxgraph %s ring=%d: %s" % (inst, ring, rep["error"]))
            cov["edges_total"] += rep["edges_total"]
            cov["edges_covered"] += rep["edges_covered"]
            cov["gate_steps"] += rep["steps"]
            cov["traces_validated_against_impl"] += rep["runs"]
            cov["terminal_nodes_reached"] += rep["terminal_nodes_reached"]
            cov["instances"].append({"instance": inst, "ring_size": ring, "nodes": rep["nodes"], "edges": rep["edges_total"],
                                     "edges_covered": rep["edges_covered"], "runs": rep["runs"],
                                     "divergences": len(rep.get("divergences") or [])})
            for s in (rep.get("samples") or [])[:1]:
                v.sample({"instance": inst, "ring_size": ring, "schedule": s})
            if rep.get("divergences"):
                cov["nonconformant_runs"] += len(rep["divergences"])
                cov["exhaustive"] = False
                d = rep["divergences"][0]
                nonconf.append({"instance": inst, "ring_size": ring, "after": d["path"][-6:], "want": d["want"], "got": d["got"],
                                "err": d.get("err", ""), "explore": rep.get("explore")})
            for viol in rep.get("violations") or []:
                if viol["prop"] != prop:
                    continue
                found.append((inst, batch, cfg, viol))
        os.remove(gjson)
    if nonconf:
        cov["nonconformance"] = nonconf[:4]
    # confirm each violation by replaying its schedule in a fresh process
    seen = set()
    for inst, batch, cfg, viol in found:
        if viol["what"] in seen:
            continue
        seen.add(viol["what"])
        rf = {"prop": prop, "instance": inst, "batch": batch, "config": cfg, "schedule": viol["schedule"], "what": viol["what"],
              "how": "./check %s quick --replay <this file>" % prop}
        tmp = sc.path("replay.json")
        json.dump(rf, open(tmp, "w"))
        p = vlib.run([drivers[batch], "-replay", tmp], ok_codes=(0, 1))
        if p.returncode != 1:
            raise vlib.Broken("violation did not reproduce: %s" % viol["what"])
        v.violation(rf, "%s [instance %s, ring size %d, schedule of %d gate steps]" % (
            viol["what"], inst, cfg["RingSize"], len(viol["schedule"])))
        if len(v.violations) >= 3:
            break
    if prop == "C01" and not v.violations:
        # engine level: the public send / forward / respond / request paths, sender identity included
        import fam_route
        fam_route.part(sc, v, tier)
    if prop == "C02" and not v.violations:
        # engine level: restarts, replay of the restart buffer, pills, budget exhaustion -- the paths on which Start
        # reaches inbox.Start while a worker of the same actor may still be inside run()
        import fam_actor
        binp2 = vlib.go_build(sc, "./cmd/actorscen", "actorscen")
        fam_actor.do_check(sc, binp2, "C02", tier, v)
    if prop == "C03":
        # vacuity guard: without the Len() re-check the model must lose a wake-up
        d = vlib.stage_specs(sc)
        open(os.path.join(d, "norecheck.cfg"), "w").write(cfg_text("2x1b2", recheck=False, live=False))
        r = vlib.tlc(sc, "MCInbox.tla", "norecheck.cfg", workers=2)
        cov["regression_norecheck"] = r.violated or "NOT VIOLATED"
        if r.violated != "C03_NoLostWakeup":
            raise vlib.Broken("vacuity guard: Recheck=FALSE should violate C03_NoLostWakeup, got %s" % r.violated)
    return v.finish()


CHECKS = {"C01": run, "C02": run, "C03": run}
