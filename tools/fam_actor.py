"""C04-C08, C13 (and the engine-level part of C02): process lifecycle and supervision.
Actor.tla is model-checked with TLC; behaviours of its scenario refinement (Eager) are replayed on
the real engine with gated deliveries (cmd/actorscen); the recorded histories are compared with the
behaviours (conformance) and judged by TLC against ActorProps.tla (ActorTrace.tla)."""
import json
import os
import shutil

import graphs
import scen_actor
import tlaval
import vlib

FIX = "FixD1 = TRUE FixD2 = TRUE FixD3 = TRUE FixD4 = TRUE FixD5 = TRUE FixD12 = TRUE FixD13 = TRUE FixD14 = TRUE"
INVS = ("C02_NoOverlap C04_Lifecycle C04_SpawnRet C05_AtMostOnce C05_InOrder C05_Fresh C05_Numbered C05_Complete "
        "C06_Alive C06_Bounded C06_Clean C07_DoneAfterStopKF C07_Drained C07_DrainedActed C07_ActsOnSound C07_AllDone "
        "C10_Resolvable C10_DupNoEffect C08_KidsFirstKF C08_Terminal C08_Children C08_NotDoneEarlyKF C13_Chain")

A1 = {"A": {"parent": "", "kids": [], "maxRestarts": 1}}
A0 = {"A": {"parent": "", "kids": [], "maxRestarts": 0}}
A2 = {"A": {"parent": "", "kids": [], "maxRestarts": 2}}


def chain(mr):
    return {"P": {"parent": "", "kids": ["C"], "maxRestarts": mr}, "C": {"parent": "P", "kids": ["G"], "maxRestarts": mr},
            "G": {"parent": "C", "kids": [], "maxRestarts": mr}}


def fan(mr):
    return {"P": {"parent": "", "kids": ["C", "D"], "maxRestarts": mr}, "C": {"parent": "P", "kids": [], "maxRestarts": mr},
            "D": {"parent": "P", "kids": [], "maxRestarts": mr}}


def pair(mrp, mrc):
    return {"P": {"parent": "", "kids": ["C"], "maxRestarts": mrp}, "C": {"parent": "P", "kids": [], "maxRestarts": mrc}}


def T(**kw):
    return {k: {"target": v[0], "graceful": v[1]} for k, v in kw.items()}


def I(actors, parent, roots, kids, mr, nmsg, sendto, toks, tgt, grace, faults, crash="AllKinds", batch=4, ifaults=0, dup=0, succ=None, respawn=False):
    return ("Actors <- %s Parent <- %s Roots <- %s KidsOf <- %s MaxRestarts <- %s NMsg = %d SendTo <- %s Toks <- %s TokTarget <- %s "
            "TokGraceful <- %s Faults = %d IFaults = %d CrashKinds <- %s Batch = %d MaxDup = %d RespawnKids = %s Succ <- %s" % (
                actors, parent, roots, kids, mr, nmsg, sendto, toks, tgt, grace, faults, ifaults, crash, batch, dup, "TRUE" if respawn else "FALSE",
                succ or {"One": "NoSucc1", "Pair": "NoSucc2", "Chain": "NoSucc3c", "Fan": "NoSuccF"}[actors]))


def one(mr, nmsg, toks, grace, faults, **kw):
    return I("One", "ParentOne", "One", "KidsNone1", mr, nmsg, "One", toks, "TgtA", grace, faults, **kw)


# name -> (TLA constants, python mirror of the actors, python mirror of the tokens)
INST = {
    "one_a": (one("MR1_1", 2, "T1", "G_t1", 1), A1, T(t1=("A", True))),
    "one_b": (one("MR1_1", 2, "T2", "G_t1", 0), A1, T(t1=("A", True), t2=("A", False))),
    "one_c": (one("MR1_1", 1, "T1", "G_t1", 2), A1, T(t1=("A", True))),
    "one_d": (one("MR0_1", 2, "T1", "G_none", 1), A0, T(t1=("A", False))),
    "one_e": (one("MR2_1", 3, "T1", "G_t1", 2, crash="UserOnly", batch=2), A2, T(t1=("A", True))),
    # a failing message with another one queued behind it, then a failure of the next incarnation in Initialized/Started
    "one_f": (one("MR2_1", 2, "T0", "G_t1", 2), A2, T()),
    # *InternalError panics: restarted without touching the budget, also when the budget is already used up
    "one_g": (one("MR0_1", 1, "T1", "G_t1", 1, ifaults=1), A0, T(t1=("A", True))),
    "one_h": (one("MR1_1", 2, "T0", "G_t1", 1, ifaults=2, crash="UserOnly"), A1, T()),
    # one failure with traffic during and after the restart (three messages, no stop request)
    "one_i": (one("MR1_1", 3, "T0", "G_t1", 1, crash="UserOnly"), A1, T()),
    # two failures, the first with a message queued behind it (replayed successfully): the budget is for the whole life
    "one_j": (one("MR1_1", 3, "T0", "G_t1", 2, crash="UserOnly"), A1, T()),
    # duplicate spawns and respawn of a stopped id, with pending messages and a graceful drain in progress
    "dup_a": (one("MR0_1", 2, "T1", "G_t1", 0, dup=2), A0, T(t1=("A", True))),
    "dup_b": (one("MR0_1", 1, "T1", "G_none", 1, dup=2, crash="UserOnly"), A0, T(t1=("A", False))),
    # succession: A spawns B under its own id from inside its final Stopped handler (leftover messages, a crash before)
    "succ_a": (I("Line", "ParentLine", "RootA", "KidsNoneL", "MR1_L", 2, "SendAB", "T1", "TgtA_L", "G_none", 1, crash="UserOnly", succ="SuccAB"),
               {"A": {"parent": "", "kids": [], "maxRestarts": 1, "succ": "B"}, "B": {"parent": "", "kids": [], "maxRestarts": 1, "succ": ""}}, T(t1=("A", False))),
    "succ_b": (I("Line", "ParentLine", "RootA", "KidsNoneL", "MR0_L", 2, "SendAB", "T1", "TgtA_L", "G_t1", 1, crash="UserOnly", succ="SuccAB"),
               {"A": {"parent": "", "kids": [], "maxRestarts": 0, "succ": "B"}, "B": {"parent": "", "kids": [], "maxRestarts": 0, "succ": ""}}, T(t1=("A", True))),
    # the Stopped handler itself panics (after poison, after stop, after a crash)
    "one_s": (one("MR1_1", 1, "T1", "G_t1", 2, crash="StoppedAndUser"), A1, T(t1=("A", True))),
    "pair_a": (I("Pair", "ParentPair", "RootP", "KidsPair", "MRc0p1", 1, "SendC", "T1", "T1onP", "G_t1", 1), pair(1, 0), T(t1=("P", True))),
    "pair_b": (I("Pair", "ParentPair", "RootP", "KidsPair", "MRc1p0", 1, "SendP", "T1", "T1onC", "G_t1", 1), pair(0, 1), T(t1=("C", True))),
    "chain_a": (I("Chain", "ParentChain", "RootP", "KidsChain", "MR0_3", 1, "SendG", "T1", "T1onP", "G_t1", 0), chain(0), T(t1=("P", True))),
    "chain_b": (I("Chain", "ParentChain", "RootP", "KidsChain", "MR0_3", 0, "SendG", "T2", "TgtCP", "G_all", 0), chain(0),
                T(t1=("C", True), t2=("P", True))),
    # the parent's Started handler calls SpawnChild again in every incarnation: a duplicate while the child lives (pair_r),
    # a fresh child under the same id after the old one has exhausted its budget and gone (pair_rr)
    "pair_r": (I("Pair", "ParentPair", "RootP", "KidsPair", "MR1_2", 1, "SendP", "T1", "T1onP", "G_t1", 1, crash="UserOnly", respawn=True),
               {"P": {"parent": "", "kids": ["C"], "maxRestarts": 1, "respawnKids": True}, "C": {"parent": "P", "kids": [], "maxRestarts": 1}}, T(t1=("P", True))),
    "pair_rr": (I("Pair", "ParentPair", "RootP", "KidsPair", "MRc0p1", 2, "Pair", "T1", "T1onP", "G_t1", 2, crash="UserOnly", respawn=True),
                {"P": {"parent": "", "kids": ["C"], "maxRestarts": 1, "respawnKids": True}, "C": {"parent": "P", "kids": [], "maxRestarts": 0}}, T(t1=("P", True))),
    "fan_a": (I("Fan", "ParentFan", "RootP", "KidsFan", "MR0_F", 1, "SendC", "T1", "T1onP", "G_t1", 0), fan(0), T(t1=("P", True))),
}

ALL_QUICK = ["one_a", "one_b", "one_c", "one_d", "one_f", "one_g", "pair_a", "chain_a", "chain_b", "fan_a"]
PLAN = {
    "quick": {
        "C02": ["one_a", "one_c", "one_d", "one_f", "one_i", "pair_a"],
        "C04": ["one_a", "one_b", "one_c", "one_d", "one_g", "one_s", "succ_a", "succ_b", "pair_a", "pair_r"],
        "C05": ["one_a", "one_c", "one_f", "one_g", "one_h", "one_i", "one_s", "pair_a"],
        "C06": ["one_c", "one_d", "one_f", "one_g", "one_j", "pair_a", "pair_b"],
        "C07": ["one_a", "one_b", "one_d", "one_s", "pair_a", "chain_b"],
        "C08": ["pair_a", "pair_b", "pair_r", "chain_a", "chain_b", "fan_a"],
        "C13": ["one_a", "one_c", "one_d", "one_g", "pair_a"],
        "C12": ["one_a", "one_c", "one_d", "dup_a", "pair_a", "pair_r"],
        "C10": ["dup_a", "dup_b", "succ_a", "pair_r", "one_a", "pair_a"],
    },
    "thorough": {p: ["one_a", "one_b", "one_c", "one_d", "one_e", "one_f", "one_g", "one_h", "one_i", "one_j", "one_s", "succ_a", "succ_b", "pair_a", "pair_b", "chain_a", "chain_b", "fan_a"]
                 for p in ("C02", "C04", "C05", "C06", "C07", "C08", "C13", "C12")},
}
PLAN["thorough"]["C10"] = ["dup_a", "dup_b", "succ_a", "succ_b", "pair_r", "pair_rr", "one_a", "one_d", "pair_a", "pair_b", "chain_a"]
PLAN["thorough"]["C04"] += ["pair_r", "pair_rr"]
# (the supervision-tree clauses speak about parents and children: the single-actor instances add nothing to them)
PLAN["thorough"]["C08"] = ["one_a", "pair_a", "pair_b", "pair_r", "pair_rr", "chain_a", "chain_b", "fan_a"]
PLAN["thorough"]["C12"].append("dup_a")
_unused = {
}

TRACE_INV = {
    "C02": ["T_C02"], "C04": ["T_C04"], "C05": ["T_C05"], "C06": ["T_C06"], "C07": ["T_C07"], "C08": ["T_C08"], "C13": ["T_C13"], "C10": ["T_C10"], "C12": ["T_C12"],
}
# free-running passes (no gates, the behaviour's environment actions back to back): judged by the same predicates
FREE_INV = {"C02": ["T_C02"], "C04": ["T_C04"], "C05": ["T_C05"], "C06": ["T_C06"], "C07": ["T_C07"], "C08": ["T_C08"], "C13": ["T_C13"]}
STRICT = {

    "C07": {"T_C07_DoneAfterStop_strict": "KF-STOPRACE"},
    "C08": {"T_C08_KidsFirst_strict": "KF-ORPHAN", "T_C08_NotDoneEarly_strict": "KF-ORPHAN"},
}


# histories in which an id is spawned again: the token / exhaustion predicates (one process per name) do not apply
INVS_DUP = "C02_NoOverlap C04_Lifecycle C05_AtMostOnce C05_InOrder C06_Alive C10_Resolvable C10_DupNoEffect C13_Chain"


def reuses_ids(inst):
    return "MaxDup = 0" not in INST[inst][0] or "SuccAB" in INST[inst][0] or "RespawnKids = TRUE" in INST[inst][0]


def model_cfg(inst, eager):
    invs = INVS_DUP if reuses_ids(inst) else INVS
    return ("CONSTANTS " + INST[inst][0] + " Eager = %s " % ("TRUE" if eager else "FALSE") + FIX +
            "\nSPECIFICATION Spec\nINVARIANTS " + invs + "\n")


def trace_consts(inst):
    parts = INST[inst][0].split()
    keep = {}
    i = 0
    while i < len(parts):
        if parts[i] in ("Actors", "Parent", "Toks", "TokTarget", "TokGraceful", "MaxRestarts"):
            keep[parts[i]] = parts[i + 2]
        i += 1
    return "CONSTANTS " + " ".join("%s <- %s" % kv for kv in keep.items())


def normalise(res, inst):
    actors, toks = INST[inst][1], INST[inst][2]
    r = dict(res)
    r["done"] = {t: res["done"].get(t, {"at": -1, "reg": False, "imm": False}) for t in toks}
    dead = {}
    for ev in res["events"]:
        if ev["e"] == "DeadLetter":
            dead.setdefault(ev["a"], set()).add(ev["n"])
    # sent before the stop request *and accepted* (a send that found nobody registered became a dead letter)
    r["sentBefore"] = {t: [k for k in res["sentBefore"].get(t, []) if k not in dead.get(toks[t]["target"] if isinstance(toks[t], dict) else toks[t][0], set())] for t in toks}
    r["accepted"] = {a: [k for k in res["sent"].get(a, []) if k not in dead.get(a, set())] for a in actors}
    r["reg"] = {a: res["reg"].get(a, False) for a in actors}
    for k in ("sent", "pending", "divergence", "diverged_at"):
        r.pop(k, None)
    return r


def id_owner(actors, name):
    for n, c in actors.items():
        if c.get("succ") == name:
            return id_owner(actors, n)
    return name


def conforms(res, exp, actors=None):
    """recorded history equals the behaviour's history?"""
    ren = (lambda a: id_owner(actors, a)) if actors else (lambda a: a)
    keys = ("a", "inc", "kind", "id", "mw", "kids", "alive", "sreg", "dn")
    got = [{k: e[k] for k in keys} for e in res["log"]]
    if got != [{k: e[k] for k in keys} for e in exp["log"]]:
        return "log differs"
    ge = sorted((e["e"], ren(e["a"]), e["n"]) for e in res["events"])
    ee = sorted((e["e"], ren(e["a"]), e["n"]) for e in exp["events"])
    if ge != ee:
        return "events differ: got %s want %s" % (ge, ee)
    owners = {}
    for a in exp["reg"]:                      # (actors that share an id are one registry entry)
        owners[ren(a)] = owners.get(ren(a), False) or exp["reg"][a]
    for a, want in owners.items():
        if res["reg"].get(a) != want:
            return "registry differs for " + a
    if sorted(t for t, d in res["done"].items() if d["at"] >= 0) != exp["done"]:
        return "done contexts differ"
    return None


def run_scenarios(sc, binp, scen_path, out_path, extra=()):
    """runs the scenario file, surviving a death of the harness process; returns (results, crashed ids)"""
    crashed = []
    start = 0
    results = []
    while True:
        prog = sc.path("progress.txt")
        open(prog, "w").write("")
        part = out_path + ".part"
        p = vlib.run([binp, "-in", scen_path, "-out", part, "-progress", prog, "-from", str(start)] + list(extra), timeout=3000, ok_codes=None)
        for line in open(part):
            line = line.strip()
            if line:
                try:
                    results.append(json.loads(line))
                except ValueError:
                    pass
        if p.returncode == 0:
            break
        k = open(prog).read().strip()
        if not k:
            raise vlib.Broken("actorscen failed: rc=%d %s" % (p.returncode, p.stderr[-2000:]))
        crashed.append((int(k), p.stderr if len(p.stderr) < 4000 else p.stderr[:2500] + "\n[...]\n" + p.stderr[-1200:]))
        start = int(k) + 1
        if len(crashed) > 20:
            break
    return results, crashed


def trace_check(sc, inst, records, invs, tag, cont=False):
    d = vlib.stage_specs(sc)
    with open(os.path.join(d, "actor_trace.ndjson"), "w") as f:
        for r in records:
            f.write(json.dumps(r) + "\n")
    cfg = "trace_%s.cfg" % tag
    open(os.path.join(d, cfg), "w").write(trace_consts(inst) + "\nSPECIFICATION Spec\nINVARIANTS " + " ".join(invs) + "\n")
    r = vlib.tlc(sc, "MCActorTrace.tla", cfg, workers=1, timeout=900, extra_args=["-continue"] if cont else None)
    return r


def violated_names(r):
    import re
    return set(re.findall(r'Invariant (\S+) is violated', r.out))


def first_bad_record(r):
    import re
    m = re.findall(r'\nl = (\d+)', r.trace_text)
    if not m:
        m = re.findall(r'l = (\d+)', r.trace_text)
    return int(m[-1]) if m else None


def run(prop, tier, replay):
    sc = vlib.Scratch(prop)
    try:
        if replay and json.load(open(replay)).get("kind") == "regconc":
            import fam_registry
            return fam_registry.replay(sc, replay)
        if replay and json.load(open(replay)).get("kind") == "stopconc":
            import fam_stopwait
            return fam_stopwait.replay(sc, replay)
        binp = vlib.go_build(sc, "./cmd/actorscen", "actorscen")
        if replay:
            return do_replay(sc, binp, prop, replay)
        if prop == "C07":
            # engine-level histories (Actor.tla) and, at lock level, concurrent Stop / Poison callers (StopWait.tla)
            import fam_stopwait
            v = vlib.Verdict(prop, tier)
            do_check(sc, binp, prop, tier, v)
            if not v.violations:
                fam_stopwait.conc_part(sc, v, tier)
            return v.finish()
        if prop == "C10":
            # sequential histories (Actor.tla) and, at lock level, concurrent spawns (Registry.tla)
            import fam_registry
            v = vlib.Verdict(prop, tier)
            do_check(sc, binp, prop, tier, v)
            if not v.violations:
                fam_registry.conc_part(sc, v, tier)
            return v.finish()
        return do_check(sc, binp, prop, tier)
    finally:
        sc.cleanup()


def gen_scenarios(sc, inst, v, tier):
    actors, toks = INST[inst][1], INST[inst][2]
    pyinst = scen_actor.Inst(actors, toks)
    # 1. full model (all interleavings)
    d = vlib.stage_specs(sc)
    open(os.path.join(d, "mc_%s.cfg" % inst), "w").write(model_cfg(inst, False))
    r = vlib.tlc(sc, "MCActor.tla", "mc_%s.cfg" % inst, timeout=1500, workers=4)
    v.add_tlc(r, inst + " (all interleavings)")
    if r.violated:
        raise vlib.Broken("Actor.tla violates %s on %s: model and code repairs disagree" % (r.violated, inst))
    # 2. scenario refinement, dumped
    r, gjson, nn, ne = graphs.dump_graph(sc, "MCActor.tla", model_cfg(inst, True), "actor_" + inst, workers=4)
    v.add_tlc(r, inst + " (scenario refinement)")
    if r.violated:
        raise vlib.Broken("Actor.tla (eager) violates %s on %s" % (r.violated, inst))
    g = json.load(open(gjson))
    os.remove(gjson)
    out = list(scen_actor.scenarios_from_graph(pyinst, g["nodes"], g["init"], g["edges"], seed=vlib.seed()))
    return pyinst, out


def batch_of(inst):
    import re
    m = re.search(r"Batch = (\d+)", INST[inst][0])
    return int(m.group(1)) if m else 4


def binary_for(sc, binp, inst):
    """instances whose model takes small batches out of the inbox run on a build whose messageBatchSize is that batch
    (the constant is rewritten in a copy of actor/inbox.go added through the overlay)"""
    b = batch_of(inst)
    if b >= 4:          # as large as any backlog of the instance: the code's own constant behaves the same
        return binp
    import overlay
    shim, rep = overlay.shim_file(sc, "actor/inbox.go", [], consts={"messageBatchSize": str(b)}, tag="b%d_" % b)
    if "messageBatchSize" not in (rep.get("consts") or []):
        raise vlib.Broken("constant messageBatchSize not found in actor/inbox.go")
    ov = overlay.write_overlay(sc, "ov_batch%d.json" % b, {"actor/inbox.go": shim})
    return vlib.go_build(sc, "./cmd/actorscen", "actorscen_b%d" % b, overlay=ov)


def do_instance(binp, prop, tier, inst):
    """everything for one instance in its own scratch directory (instances run in parallel)"""
    sc = vlib.Scratch("%s-%s" % (prop, inst))
    out = {"inst": inst, "tlc": [], "cov": None, "sample": None, "violations": [], "kf": set(), "nonconf": [], "broken": None}
    try:
        v = _Collector(out)
        binp = binary_for(sc, binp, inst)
        pyinst, scen = gen_scenarios(sc, inst, v, tier)
        spath = sc.path("scen_%s.ndjson" % inst)
        with open(spath, "w") as f:
            f.write(pyinst.config_line() + "\n")
            for s, e, racy in scen:
                s["racy"] = bool(racy)
                f.write(json.dumps(s) + "\n")
        results, crashed = run_scenarios(sc, binp, spath, sc.path("res_%s.ndjson" % inst))
        byid = {r["id"]: r for r in results}
        nconf = ndiv = nracy = 0
        records = []
        order = []
        evdiff = []
        regdiff = []
        for s, e, racy in scen:
            r = byid.get(s["id"])
            if r is None:
                continue
            why = "diverged: " + r.get("divergence", "") if r["diverged"] else conforms(r, e, INST[inst][1])
            if why is None:
                nconf += 1
            elif racy:
                nracy += 1
            else:
                ndiv += 1
                if len(out["nonconf"]) < 4:
                    out["nonconf"].append({"instance": inst, "scenario": s["id"], "why": why[:400]})
                if why.startswith("events differ") and not r["diverged"]:
                    evdiff.append((s, r, why, e))
                if why.startswith("registry differs") and not r["diverged"]:
                    regdiff.append((s, r, why, e))
            records.append(normalise(r, inst))
            order.append(s)
        out["cov"] = {"instance": inst, "scenarios": len(scen), "ran": len(records), "conformant": nconf,
                      "nonconformant": ndiv, "racy_diverged": nracy, "process_deaths": len(crashed)}
        if crashed:
            out["cov"]["process_death_stderr"] = [{"scenario": k, "stderr_head": err[:1200]} for k, err in crashed[:2]]
        if scen:
            out["sample"] = {"instance": inst, "scenario": scen[0][0]["steps"]}
        # containment: the hosting process must survive every scenario
        if crashed and prop in ("C05", "C06"):
            for k, err in crashed[:2]:
                s = next(x for x, _, _ in scen if x["id"] == k)
                rf = {"kind": "process-death", "instance": inst, "config": json.loads(pyinst.config_line()), "scenario": s, "stderr": err[-600:]}
                if confirm_death(sc, binp, rf):
                    out["violations"].append((rf, "the hosting process died while running scenario %d of %s (panic escaped the actor): %s" % (
                        k, inst, err.strip().splitlines()[0][:200] if err.strip() else "")))
        if not records:
            return out
        if prop == "C12":
            # lifecycle events: in a steered, conformant-so-far run the published events must be exactly the model's
            for s, r, why, e in evdiff[:2]:
                rf = {"kind": "events", "instance": inst, "config": json.loads(pyinst.config_line()), "scenario": s, "why": why,
                      "expected_events": sorted([ev["e"], ev["a"], ev["n"]] for ev in e["events"])}
                if confirm_events(sc, binp, inst, rf, pyinst):
                    out["violations"].append((rf, "lifecycle events published in scenario %s of %s differ from the occurrences: %s" % (s["id"], inst, why[:300])))
            if out["violations"]:
                return out
            # ... and, whichever way the races of a scenario went, the events the harness can count on its own
        if prop == "C10":
            # GetPID(id) resolves exactly the live actors: in a steered run that conformed up to the end the registry must
            # be the model's (reproduced in a second run before it counts)
            for s, r, why, e in regdiff[:2]:
                rf = {"kind": "registry", "instance": inst, "config": json.loads(pyinst.config_line()), "scenario": s, "why": why,
                      "expected_registry": e["reg"]}
                if confirm_registry(sc, binp, inst, rf):
                    out["violations"].append((rf, "at the end of scenario %s of %s the registry differs from the actors that are live: %s" % (s["id"], inst, why[:200])))
            if out["violations"]:
                return out
        # verdict by TLC on the recorded histories
        r = trace_check(sc, inst, records, TRACE_INV[prop], "%s_%s" % (prop, inst))
        if r.violated:
            l = first_bad_record(r)
            s = order[l - 1] if l else None
            rf = {"kind": "history", "instance": inst, "config": json.loads(pyinst.config_line()), "scenario": s,
                  "invariant": r.violated, "recorded": records[l - 1] if l else None}
            if confirm_history(sc, binp, prop, inst, rf):
                out["violations"].append((rf, "%s fails on the history recorded from scenario %s of instance %s" % (r.violated, s and s["id"], inst)))
            else:
                raise vlib.Broken("violation of %s on %s scenario %s did not reproduce" % (r.violated, inst, s and s["id"]))
        if prop in STRICT:
            r2 = trace_check(sc, inst, records, list(STRICT[prop]), "%s_%s_strict" % (prop, inst), cont=True)
            for name in violated_names(r2):
                out["kf"].add(STRICT[prop][name])
        # (an id that is spawned again -- duplicate / respawn / succession instances -- is two processes under one name: in
        # a free-running pass nothing keeps the old one's last steps in front of the new one's first, which the
        # one-process-per-name predicates assume)
        if prop in FREE_INV and not out["violations"] and not reuses_ids(inst):
            free_passes(sc, binp, prop, tier, inst, pyinst, scen, spath, out)
        return out
    except vlib.Broken as e:
        out["broken"] = str(e)
        return out
    finally:
        sc.cleanup()


def free_passes(sc, binp, prop, tier, inst, pyinst, scen, spath, out):
    """the same behaviours once more without gates: environment actions back to back, failures where the behaviour
    has them; the recorded histories are judged by the property's predicates (they need not be the behaviour's)"""
    byid = {s["id"]: s for s, _, _ in scen}
    npass = 1 if tier == "quick" else 4
    every = 3 if tier == "quick" else 1
    nfree = 0
    for k in range(1, npass + 1):
        pno = k + 10 * (vlib.seed() % 1000)
        fres, fcr = run_scenarios(sc, binp, spath, sc.path("free_%s_%d.ndjson" % (inst, k)), extra=["-free", str(pno), "-every", str(every)])
        nfree += len(fres)
        if fcr and prop in ("C05", "C06"):
            for sid, err in fcr[:2]:
                rf = {"kind": "process-death", "free": pno, "instance": inst, "config": json.loads(pyinst.config_line()), "scenario": byid[sid], "stderr": err[-600:]}
                if confirm_death(sc, binp, rf):
                    out["violations"].append((rf, "the hosting process died in a free-running pass of scenario %d of %s: %s" % (
                        sid, inst, err.strip().splitlines()[0][:200] if err.strip() else "")))
        recs = [normalise(r, inst) for r in fres]
        if not recs:
            continue
        r = trace_check(sc, inst, recs, FREE_INV[prop], "%s_%s_free%d" % (prop, inst, k))
        if r.violated:
            l = first_bad_record(r)
            s = byid.get(fres[l - 1]["id"]) if l else None
            rf = {"kind": "history", "free": pno, "instance": inst, "config": json.loads(pyinst.config_line()), "scenario": s,
                  "invariant": r.violated, "recorded": recs[l - 1] if l else None}
            if s is not None and confirm_history(sc, binp, prop, inst, rf):
                out["violations"].append((rf, "%s fails on a history recorded in a free-running pass of scenario %s of instance %s" % (r.violated, s["id"], inst)))
            else:
                out["unreproduced"] = out.get("unreproduced", 0) + 1
                out.setdefault("unreproduced_samples", []).append({"instance": inst, "scenario": s and s["id"], "pass": pno, "invariant": r.violated,
                                                                   "recorded": recs[l - 1] if l else None})
        if prop in STRICT:
            r2 = trace_check(sc, inst, recs, list(STRICT[prop]), "%s_%s_free%d_strict" % (prop, inst, k), cont=True)
            for name in violated_names(r2):
                out["kf"].add(STRICT[prop][name])
        if out["violations"]:
            break
    out["cov"]["free_running_histories"] = nfree


class _Collector:
    """stand-in for Verdict inside a worker thread"""

    def __init__(self, out):
        self.out = out

    def add_tlc(self, r, label):
        self.out["tlc"].append((r, label))


def do_check(sc, binp, prop, tier, v=None):
    from concurrent.futures import ThreadPoolExecutor
    finish = v is None
    v = v or vlib.Verdict(prop, tier)
    cov = v.coverage
    cov.update({"scenarios": 0, "conformant": 0, "racy_diverged": 0, "instances": [], "crashed_scenarios": 0})
    v.assumptions += [
        "deliveries are gated inside Receive; environment actions are issued only when every actor is parked at a gate, idle or blocked (scenario refinement of Actor.tla)",
        "bounded instances: <= 3 actors, <= 3 user messages, <= 2 stop requests, <= 2 injected panics (plain or *InternalError); middleware chains 0..3 built from a shared base slice, inbox sizes 1,2,3,1024, root spawned with a live or an already cancelled context",
        "panics are injected in Initialized / Started / user deliveries and (instance one_s) in Stopped handlers",
        "free-running passes: the same behaviours without gates (environment actions back to back from one driver goroutine, failures at the deliveries the behaviour names, pseudo-random pauses); their histories are judged by the property predicates only, a violation counts once it shows again in a re-run",
    ]
    kf_seen = {}
    insts = PLAN[tier][prop]
    with ThreadPoolExecutor(max_workers=min(len(insts), max(2, vlib.ncpu() // 4))) as ex:
        outs = list(ex.map(lambda i: do_instance(binp, prop, tier, i), insts))
    for out in outs:
        if out["broken"]:
            raise vlib.Broken(out["broken"])
    for out in outs:
        for r, label in out["tlc"]:
            v.add_tlc(r, label)
        c = out["cov"]
        if c:
            cov["scenarios"] += c["ran"]
            cov["traces_validated_against_impl"] += c["ran"]
            cov["conformant"] += c["conformant"]
            cov["nonconformant_runs"] += c["nonconformant"]
            cov["racy_diverged"] += c["racy_diverged"]
            cov["crashed_scenarios"] += c["process_deaths"]
            cov["free_running_histories"] = cov.get("free_running_histories", 0) + c.get("free_running_histories", 0)
            cov["free_running_unreproduced"] = cov.get("free_running_unreproduced", 0) + out.get("unreproduced", 0)
            if out.get("unreproduced_samples"):
                cov.setdefault("free_running_unreproduced_samples", [])
                cov["free_running_unreproduced_samples"] += out["unreproduced_samples"][:max(0, 2 - len(cov["free_running_unreproduced_samples"]))]
            cov["instances"].append(c)
        if out["nonconf"]:
            cov.setdefault("nonconformance", [])
            cov["nonconformance"] += out["nonconf"][:max(0, 4 - len(cov["nonconformance"]))]
        if out["sample"]:
            v.sample(out["sample"])
        for rf, text in out["violations"]:
            if len(v.violations) < 3:
                v.violation(rf, text)
        for sig in out["kf"]:
            kf_seen[sig] = True
    for k in vlib.known_findings(prop):
        if kf_seen.get(k["sig"]):
            v.known_seen[k["sig"]] = k["what"]
            kf_seen.pop(k["sig"])
    for sig in kf_seen:
        # a strict predicate fails but the file does not list the signature: that is an unlisted violation
        v.violation({"kind": "unlisted-known-finding", "sig": sig}, "strict predicate fails with signature %s which KNOWN_FINDINGS.txt does not list" % sig)
    return v.finish() if finish else None


def confirm_events(sc, binp, inst, rf, pyinst):
    """re-run the scenario twice: the event mismatch must reproduce in a steered run"""
    for _ in range(2):
        p = vlib.run([binp, "-in", write_single(sc, rf), "-out", sc.path("single.out")], ok_codes=None, timeout=120)
        if p.returncode != 0:
            return False
        recs = [json.loads(l) for l in open(sc.path("single.out")) if l.strip()]
        if not recs or recs[0]["diverged"]:
            return False
        exp = rf.get("expected_events")
        got = sorted([e["e"], e["a"], e["n"]] for e in recs[0]["events"])
        if exp is not None and got == exp:
            return False
    return True


def confirm_registry(sc, binp, inst, rf):
    """re-run the scenario twice: the registry mismatch must reproduce in a steered, undiverged run"""
    actors = INST[inst][1]
    for _ in range(2):
        p = vlib.run([binp, "-in", write_single(sc, rf), "-out", sc.path("single.out")], ok_codes=None, timeout=120)
        if p.returncode != 0:
            return False
        recs = [json.loads(l) for l in open(sc.path("single.out")) if l.strip()]
        if not recs or recs[0]["diverged"]:
            return False
        owners = {}
        for a, want in rf["expected_registry"].items():
            owners[id_owner(actors, a)] = owners.get(id_owner(actors, a), False) or want
        if all(recs[0]["reg"].get(a) == want for a, want in owners.items()):
            return False
    return True


def write_single(sc, rf):
    p = sc.path("single.ndjson")
    with open(p, "w") as f:
        f.write(json.dumps(rf["config"]) + "\n" + json.dumps(rf["scenario"]) + "\n")
    return p


def free_args(rf):
    return ["-free", str(rf["free"])] if rf.get("free") else []


def confirm_death(sc, binp, rf):
    for _ in range(10 if rf.get("free") else 1):
        p = vlib.run([binp, "-in", write_single(sc, rf), "-out", sc.path("single.out")] + free_args(rf), ok_codes=None, timeout=120)
        if p.returncode != 0:
            return True
    return False


def confirm_history(sc, binp, prop, inst, rf, tries=6):
    """the scenario is run again; a violation that depends on timing inside the engine counts once it shows again"""
    if rf.get("free"):
        tries = 40
    for _ in range(tries):
        p = vlib.run([binp, "-in", write_single(sc, rf), "-out", sc.path("single.out")] + free_args(rf), ok_codes=None, timeout=120)
        if p.returncode != 0:
            return False
        recs = [normalise(json.loads(l), inst) for l in open(sc.path("single.out")) if l.strip()]
        if not recs:
            return False
        r = trace_check(sc, inst, recs, TRACE_INV[prop], "confirm")
        if r.violated:
            return True
    return False


def do_replay(sc, binp, prop, path):
    rf = json.load(open(path))
    if rf.get("kind") == "registry":
        ok = confirm_registry(sc, binp, rf["instance"], rf)
    elif rf.get("kind") == "process-death":
        ok = confirm_death(sc, binp, rf)
    else:
        ok = confirm_history(sc, binp, prop, rf["instance"], rf)
    print("REPRODUCED" if ok else "NOT-REPRODUCED")
    return 1 if ok else 0


CHECKS = {p: run for p in ("C04", "C05", "C06", "C07", "C08", "C13", "C10")}
CHECKS_EVENTS = run   # C12 (lifecycle-event part) is dispatched from fam_events
