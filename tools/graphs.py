"""TLC state graph -> JSON for the Go drivers."""
import json
import os

import tlaval
import vlib


def dump_graph(sc, module, cfg_text, tag, workers=None, timeout=900):
    """writes cfg_text to <tag>.cfg in the staged specs dir, runs TLC with a dot dump,
    converts to json. returns (TLCResult, json path, n_nodes, n_edges)"""
    d = vlib.stage_specs(sc)
    cfg = tag + ".cfg"
    with open(os.path.join(d, cfg), "w") as f:
        f.write(cfg_text)
    dot = sc.path(tag + ".dot")
    r = vlib.tlc(sc, module, cfg, workers=workers, timeout=timeout, dump=dot)
    if r.violated:
        return r, None, 0, 0
    nodes, init, edges = tlaval.parse_dot(dot)
    jp = sc.path(tag + ".json")
    with open(jp, "w") as f:
        json.dump({"nodes": nodes, "init": init, "edges": edges}, f)
    os.remove(dot)
    return r, jp, len(nodes), len(edges)
