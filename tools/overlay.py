"""Build-time overlay: adds the verifshim packages (and optional shimmed copies / accessor
files) to the repository's module without touching /repo."""
import json
import os
import subprocess

import vlib

SHIM_ROOT = os.path.join(vlib.HARNESS, "overlay", "verifshim")
MOD = "github.com/anthdm/hollywood"
IMPORTS = {
    "sync/atomic": MOD + "/verifshim/atomic",
    "sync": MOD + "/verifshim/sync",
    MOD + "/ringbuffer": MOD + "/verifshim/ring",
}


PKG_ROOT = os.path.join(vlib.HARNESS, "overlay_pkg")


def base_replace():
    rep = {}
    # accessor files added to existing packages of the repository (all //go:build verif)
    if os.path.isdir(PKG_ROOT):
        for pkg in sorted(os.listdir(PKG_ROOT)):
            d = os.path.join(PKG_ROOT, pkg)
            for f in sorted(os.listdir(d)):
                if f.endswith(".go"):
                    rep[os.path.join(vlib.REPO, pkg, f)] = os.path.join(d, f)
    for pkg in sorted(os.listdir(SHIM_ROOT)):
        d = os.path.join(SHIM_ROOT, pkg)
        for f in sorted(os.listdir(d)):
            if f.endswith(".go"):
                rep[os.path.join(vlib.REPO, "verifshim", pkg, f)] = os.path.join(d, f)
    return rep


_shimgen = {}


def shimgen_bin(sc):
    if sc.dir not in _shimgen:
        _shimgen[sc.dir] = vlib.go_build(sc, "./cmd/shimgen", "shimgen")
    return _shimgen[sc.dir]


def shim_file(sc, relpath, imports, consts=None, tag=""):
    """returns (path of shimmed copy, report dict)"""
    src = os.path.join(vlib.REPO, relpath)
    if not os.path.exists(src):
        raise vlib.Broken("source file missing: " + src)
    out = sc.path("shim_%s%s" % (tag, relpath.replace("/", "_")))
    imp = ",".join("%s=%s" % (k, IMPORTS[k]) for k in imports)
    cs = ",".join("%s=%s" % kv for kv in (consts or {}).items())
    p = vlib.run([shimgen_bin(sc), "-in", src, "-out", out, "-imports", imp, "-consts", cs])
    return out, json.loads(p.stdout)


def write_overlay(sc, name, extra_replace=None, add_files=None):
    """extra_replace: {repo-relative path: file}; add_files: {repo-relative path: source file} (new files)"""
    rep = base_replace()
    for rel, f in (extra_replace or {}).items():
        rep[os.path.join(vlib.REPO, rel)] = f
    for rel, f in (add_files or {}).items():
        rep[os.path.join(vlib.REPO, rel)] = f
    path = sc.path(name)
    with open(path, "w") as fh:
        json.dump({"Replace": rep}, fh)
    return path
