"""C17 -- remote link.  RemoteLink.tla (router / stream writer life cycle at the grain of operations
awaited to quiescence) is model-checked by TLC; every maximal operation sequence is exported with the
state TLC expects after each step and replayed on two real engines connected by their real remotes
over loopback TCP (cmd/remotescen)."""
import json

import fam_wire
import overlay
import vlib


def cfg(threads, maxops, maxdown=1, forget=True, export=True, other=1):
    b = lambda x: "TRUE" if x else "FALSE"
    return ("CONSTANTS Threads <- %s MaxOps = %d MaxDown = %d ForgetOnUnreachable = %s Export = %s MaxOther = %d\nSPECIFICATION Spec\n"
            "INVARIANTS TypeOK C17_OnceOrDead C17_InOrder C17_Replies C17_Reported ExportCase\nPROPERTIES C17_FreshAttempt\n" % (
                threads, maxops, maxdown, b(forget), b(export), other))


PLAN = {"quick": [("t1_ops4", ("T1", 4, 1))],
        "thorough": [("t1_ops5", ("T1", 5, 2)), ("t2_ops4", ("T2", 4, 1))]}


def run(prop, tier, replay):
    sc = vlib.Scratch(prop)
    try:
        ov = overlay.write_overlay(sc, "ov.json")
        binp = vlib.go_build(sc, "./cmd/remotescen", "remotescen", overlay=ov)
        if replay:
            rf = json.load(open(replay))
            if rf.get("kind") == "outage":
                for _ in range(3):
                    pr = vlib.run([binp, "-outage", str(rf["rounds"]), "-workers", "8"], ok_codes=(0, 1), timeout=3000)
                    if pr.returncode == 1:
                        break
                print(pr.stdout.strip()[:1500])
                return pr.returncode
            p = sc.path("one.ndjson")
            open(p, "w").write(json.dumps(rf["case"]) + "\n")
            pr = vlib.run([binp, "-cases", p, "-workers", "1"], ok_codes=(0, 1), timeout=300)
            print(pr.stdout.strip()[:2000])
            return pr.returncode
        v = vlib.Verdict(prop, tier)
        cov = v.coverage
        cov.update({"cases": 0, "steps_executed": 0, "exhaustive": True, "instances": []})
        v.assumptions += [
            "two real engines with real remotes on loopback TCP ports chosen by the OS; B goes down by Remote.Stop().Wait() and comes back as a fresh engine on the same address",
            "operations are awaited to quiescence (the next one is issued when what TLC predicts has been observed); a burst that makes first contact is 20000 messages, others 40; "
            "every second message carries a sender PID; connection loss in mid-stream is outside the property and not asserted on",
        ]
        for tag, (threads, maxops, maxdown) in PLAN[tier]:
            r, cases = fam_wire.tlc_cases(sc, "MCRemoteLink.tla", cfg(threads, maxops, maxdown), tag)
            v.add_tlc(r, tag)
            if r.violated:
                raise vlib.Broken("RemoteLink.tla violates %s on %s: the model is wrong, not the code" % (r.violated, tag))
            if not cases:
                raise vlib.Broken("no cases exported for " + tag)
            cp = sc.path(tag + ".ndjson")
            with open(cp, "w") as f:
                for c in cases:
                    f.write(json.dumps(c) + "\n")
            pr = vlib.run([binp, "-cases", cp, "-workers", str(max(4, vlib.ncpu()))], ok_codes=(0, 1), timeout=3000)
            rep = json.loads(pr.stdout)
            cov["cases"] += rep["cases"]
            cov["steps_executed"] += rep["steps"]
            cov["traces_validated_against_impl"] += rep["cases"]
            fails = rep["failures"] or []
            hb = [f for f in fails if f["what"].startswith("harness:")]
            if hb:
                raise vlib.Broken("remotescen: " + hb[0]["what"])
            cov["instances"].append({"instance": tag, "cases": rep["cases"], "failures": len(fails)})
            for s in (rep["samples"] or [])[:2]:
                v.sample({"ops": s})
            for f in fails[:3]:
                rf = {"case": f["case"], "what": f["what"], "instance": tag, "step": f["step"]}
                tmp = sc.path("rf.ndjson")
                open(tmp, "w").write(json.dumps(f["case"]) + "\n")
                ok = False
                for _ in range(3):
                    if vlib.run([binp, "-cases", tmp, "-workers", "1"], ok_codes=(0, 1), timeout=300).returncode == 1:
                        ok = True
                        break
                if not ok:
                    raise vlib.Broken("remote link failure did not reproduce: " + f["what"])
                v.violation(rf, "%s [%s case %d step %d: %s]" % (f["what"][:400], tag, f["index"], f["step"], " ".join(f["steps"])))
            if v.violations:
                break
        if not v.violations:
            # traffic while the peer goes away and comes back (free-running rounds, side by side), judged by the clause that
            # holds whatever happened to the messages of the outage: a later send makes a fresh attempt that succeeds
            rounds = 96 if tier == "quick" else 480
            def outage():
                pr = vlib.run([binp, "-outage", str(rounds), "-workers", "8"], ok_codes=(0, 1), timeout=3000)
                return json.loads(pr.stdout)
            rep = outage()
            cov["outage_rounds"] = rep["rounds"]
            fails = rep["failures"] or []
            if any(f.startswith("harness:") for f in fails):
                raise vlib.Broken("remotescen: " + [f for f in fails if f.startswith("harness:")][0])
            if fails:
                # it takes a particular interleaving: seen again in up to two more batches it counts
                again = []
                for _ in range(2):
                    again = [f for f in (outage()["failures"] or []) if not f.startswith("harness:")]
                    if again:
                        break
                if not again:
                    raise vlib.Broken("outage failure did not show again: " + fails[0])
                v.violation({"kind": "outage", "rounds": rounds, "what": fails[0]}, fails[0] + " [traffic during an outage, %d rounds]" % rounds)
        r, _ = fam_wire.tlc_cases(sc, "MCRemoteLink.tla", cfg("T1", 4, 1, forget=False, export=False), "reg")
        cov["regression_configs"] = {"ForgetOnUnreachable=FALSE": r.violated or "NOT VIOLATED"}
        if r.violated not in ("C17_FreshAttempt",):
            raise vlib.Broken("vacuity guard: ForgetOnUnreachable=FALSE should violate C17_FreshAttempt, got %s" % r.violated)
        return v.finish()
    finally:
        sc.cleanup()


CHECKS = {"C17": run}
