"""C14 -- RingBuffer.  Sequential level: RingBuffer.tla (code-shaped index arithmetic + ghost
queue, refinement invariant) bound by B-table: the real RingBuffer[int] is driven along an edge
cover of the TLC graph for every initial capacity and its API results compared with the
abstract queue's.  Concurrent level: RingConc.tla bound by B-graph (fam_ring.run_conc)."""
import json
import os

import graphs
import overlay
import vlib

SEQ = {"quick": {"caps": [1, 2, 3, 4], "maxpush": 6, "maxn": 3},
       "thorough": {"caps": [1, 2, 3, 4, 5, 8], "maxpush": 9, "maxn": 4}}
INVS = "C14_Refines C14_RetOK C14_LenOK C14_Geometry C14_Once TypeOK"


def seq_cfg(cap, maxpush, maxn):
    return ("CONSTANTS Cap0 = %d MaxPush = %d MaxN = %d\nSPECIFICATION Spec\nINVARIANTS %s\n" % (cap, maxpush, maxn, INVS))


def run(prop, tier, replay):
    sc = vlib.Scratch(prop)
    try:
        if replay:
            binp = vlib.go_build(sc, "./cmd/ringtable", "ringtable")
            rf = json.load(open(replay))
            if rf.get("kind") == "conc":
                return conc_replay(sc, replay)
            p = vlib.run([binp, "-replay", replay], ok_codes=(0, 1))
            print(p.stdout.strip())
            return p.returncode
        v = vlib.Verdict(prop, tier)
        seq_part(sc, v, tier)
        conc_part(sc, v, tier)
        return v.finish()
    finally:
        sc.cleanup()


def seq_part(sc, v, tier):
    plan = SEQ[tier]
    binp = vlib.go_build(sc, "./cmd/ringtable", "ringtable")
    cov = v.coverage
    cov.update({"edges_total": 0, "edges_covered": 0, "calls_executed": 0, "sequential": [], "exhaustive": True})
    v.assumptions += ["sequential part: all call sequences with <= %d pushes, PopN(1..%d), every initial capacity in %s; element type int"
                      % (plan["maxpush"], plan["maxn"], plan["caps"])]
    for cap in plan["caps"]:
        r, gjson, nn, ne = graphs.dump_graph(sc, "RingBuffer.tla", seq_cfg(cap, plan["maxpush"], plan["maxn"]), "ring_cap%d" % cap)
        v.add_tlc(r, "seq cap=%d" % cap)
        if r.violated:
            raise vlib.Broken("RingBuffer.tla violates %s for Cap0=%d: the model is wrong" % (r.violated, cap))
        p = vlib.run([binp, "-graph", gjson, "-cap", str(cap), "-seed", str(vlib.seed())])
        rep = json.loads(p.stdout)
        cov["edges_total"] += rep["edges_total"]
        cov["edges_covered"] += rep["edges_covered"]
        cov["calls_executed"] += rep["steps"]
        cov["traces_validated_against_impl"] += rep["runs"]
        cov["sequential"].append({"cap0": cap, "nodes": rep["nodes"], "edges": rep["edges_total"], "runs": rep["runs"],
                                  "failures": len(rep.get("failures") or [])})
        for s in (rep.get("samples") or [])[:1]:
            v.sample({"cap0": cap, "calls": s})
        for f in (rep.get("failures") or [])[:2]:
            f["kind"] = "seq"
            tmp = sc.path("rf.json")
            json.dump(f, open(tmp, "w"))
            pr = vlib.run([binp, "-replay", tmp], ok_codes=(0, 1))
            if pr.returncode != 1:
                raise vlib.Broken("sequential ring failure did not reproduce: %s" % f)
            v.violation(f, "RingBuffer(cap %d) after %s: want %s, got %s" % (cap, " ".join(f["ops"]), f["want"], f["got"]))
        os.remove(gjson)
        if v.violations:
            break


def conc_part(sc, v, tier):
    pass


def conc_replay(sc, replay):
    raise vlib.Broken("no concurrent replay yet")


CHECKS = {"C14": run}
