"""C14 -- RingBuffer.  Sequential level: RingBuffer.tla (code-shaped index arithmetic + ghost
queue, refinement invariant) bound by B-table: the real RingBuffer[int] is driven along an edge
cover of the TLC graph for every initial capacity and its API results compared with the
abstract queue's.  Concurrent level: RingConc.tla bound by B-graph (fam_ring.run_conc)."""
import json
import os

import graphs
import overlay
import vlib

SEQ = {"quick": {"caps": [1, 2, 3, 4], "maxpush": 6, "maxn": 3},
       "thorough": {"caps": [1, 2, 3, 4, 5, 8], "maxpush": 9, "maxn": 4}}
INVS = "C14_Refines C14_RetOK C14_LenOK C14_Geometry C14_Once TypeOK"


def seq_cfg(cap, maxpush, maxn):
    return ("CONSTANTS Cap0 = %d MaxPush = %d MaxN = %d\nSPECIFICATION Spec\nINVARIANTS %s\n" % (cap, maxpush, maxn, INVS))


def run(prop, tier, replay):
    sc = vlib.Scratch(prop)
    try:
        if replay:
            binp = vlib.go_build(sc, "./cmd/ringtable", "ringtable")
            rf = json.load(open(replay))
            if rf.get("kind") == "conc":
                return conc_replay(sc, replay)
            p = vlib.run([binp, "-replay", replay], ok_codes=(0, 1))
            print(p.stdout.strip())
            return p.returncode
        v = vlib.Verdict(prop, tier)
        seq_part(sc, v, tier)
        conc_part(sc, v, tier)
        return v.finish()
    finally:
        sc.cleanup()


def seq_part(sc, v, tier):
    plan = SEQ[tier]
    binp = vlib.go_build(sc, "./cmd/ringtable", "ringtable")
    cov = v.coverage
    cov.update({"edges_total": 0, "edges_covered": 0, "calls_executed": 0, "sequential": [], "exhaustive": True})
    v.assumptions += ["sequential part: all call sequences with <= %d pushes, PopN(1..%d), every initial capacity in %s; element type int"
                      % (plan["maxpush"], plan["maxn"], plan["caps"])]
    for cap in plan["caps"]:
        r, gjson, nn, ne = graphs.dump_graph(sc, "RingBuffer.tla", seq_cfg(cap, plan["maxpush"], plan["maxn"]), "ring_cap%d" % cap)
        v.add_tlc(r, "seq cap=%d" % cap)
        if r.violated:
            raise vlib.Broken("RingBuffer.tla violates %s for Cap0=%d: the model is wrong" % (r.violated, cap))
        p = vlib.run([binp, "-graph", gjson, "-cap", str(cap), "-seed", str(vlib.seed())])
        rep = json.loads(p.stdout)
        cov["edges_total"] += rep["edges_total"]
        cov["edges_covered"] += rep["edges_covered"]
        cov["calls_executed"] += rep["steps"]
        cov["traces_validated_against_impl"] += rep["runs"]
        cov["sequential"].append({"cap0": cap, "nodes": rep["nodes"], "edges": rep["edges_total"], "runs": rep["runs"],
                                  "failures": len(rep.get("failures") or [])})
        for s in (rep.get("samples") or [])[:1]:
            v.sample({"cap0": cap, "calls": s})
        for f in (rep.get("failures") or [])[:2]:
            f["kind"] = "seq"
            tmp = sc.path("rf.json")
            json.dump(f, open(tmp, "w"))
            pr = vlib.run([binp, "-replay", tmp], ok_codes=(0, 1))
            if pr.returncode != 1:
                raise vlib.Broken("sequential ring failure did not reproduce: %s" % f)
            v.violation(f, "RingBuffer(cap %d) after %s: want %s, got %s" % (cap, " ".join(f["ops"]), f["want"], f["got"]))
        os.remove(gjson)
        if v.violations:
            break


# concurrent level: thread programs (one source: the TLA+ constant is generated from this table)
PROGS = {
    # two pushes that make a ring of capacity 2 grow, against a PopN and a reader of Len
    "grow_vs_popn": ({"a": [("Push", 1), ("Push", 2)], "b": [("PopN", 2)], "c": [("Len", 0), ("Len", 0)]}, [2, 1]),
    # pops racing pushes across the growth point
    "push3_vs_pops": ({"a": [("Push", 1), ("Push", 2), ("Push", 3)], "b": [("Pop", 0), ("PopN", 2)]}, [2, 4]),
    # a polling Pop on a queue that is (nearly) empty against a pusher and a reader of Len: "empty" and Len are decided
    # under the same lock
    "pop_empty_vs_len": ({"a": [("Push", 1)], "b": [("Pop", 0), ("Pop", 0)], "c": [("Len", 0), ("Len", 0)]}, [2]),
    "three_threads": ({"a": [("Push", 1), ("Push", 2)], "b": [("Push", 3), ("Pop", 0)], "c": [("PopN", 3), ("Len", 0)]}, [1, 2]),
}
CONC = {"quick": ["grow_vs_popn", "push3_vs_pops", "pop_empty_vs_len"], "thorough": ["grow_vs_popn", "push3_vs_pops", "pop_empty_vs_len", "three_threads"]}


def tla_progs(threads):
    def call(c):
        return '[op |-> "%s", v |-> %d]' % c
    return "[" + ", ".join("%s |-> <<%s>>" % (t, ", ".join(call(c) for c in cs)) for t, cs in sorted(threads.items())) + "]"


def build_conc(sc):
    shim, rep = overlay.shim_file(sc, "ringbuffer/ringbuffer.go", ["sync/atomic", "sync"], tag="rc_")
    ov = overlay.write_overlay(sc, "ov_ringconc.json", {"ringbuffer/ringbuffer.go": shim})
    return vlib.go_build(sc, "./cmd/ringconc", "ringconc", overlay=ov)


def conc_part(sc, v, tier):
    binp = build_conc(sc)
    cov = v.coverage
    cov.update({"concurrent": [], "gate_steps": 0})
    v.assumptions += ["concurrent part: 2-3 threads with 1-3 calls each, every interleaving of their mutex / atomic operations (sequentially consistent); "
                      "gate shims generated from the working tree's ringbuffer.go"]
    d = vlib.stage_specs(sc)
    for name in CONC[tier]:
        threads, caps = PROGS[name]
        open(os.path.join(d, "MCRingConcGen.tla"), "w").write(
            "---- MODULE MCRingConcGen ----\nEXTENDS RingConc\nTheProgs == %s\n====\n" % tla_progs(threads))
        cfg = "CONSTANTS Progs <- TheProgs\nSPECIFICATION Spec\nINVARIANTS TypeOK C14_LenIsQueue C14_ExactlyOnce\nPROPERTIES C14_Done\n"
        r, gjson, nn, ne = graphs.dump_graph(sc, "MCRingConcGen.tla", cfg, "rc_" + name, workers=4)
        v.add_tlc(r, "conc " + name)
        if r.violated:
            raise vlib.Broken("RingConc.tla violates %s on %s: the model is wrong" % (r.violated, name))
        hcfg0 = {"threads": {t: [{"op": o, "v": x} for o, x in cs] for t, cs in threads.items()}}
        for cap in caps:
            hcfg = dict(hcfg0, cap=cap)
            p = vlib.run([binp, "-graph", gjson, "-config", json.dumps(hcfg), "-seed", str(vlib.seed()),
                          "-explore-budget", "60s" if tier == "quick" else "300s"], timeout=900)
            rep = json.loads(p.stdout)
            if rep.get("error"):
                raise vlib.Broken("ringconc %s cap=%d: %s" % (name, cap, rep["error"]))
            cov["edges_total"] += rep["edges_total"]
            cov["edges_covered"] += rep["edges_covered"]
            cov["gate_steps"] += rep["steps"]
            cov["traces_validated_against_impl"] += rep["runs"]
            cov["concurrent"].append({"program": name, "cap0": cap, "nodes": rep["nodes"], "edges": rep["edges_total"], "edges_covered": rep["edges_covered"],
                                      "runs": rep["runs"], "model_outcomes": rep["model_outcomes"], "divergences": len(rep.get("divergences") or []),
                                      "explored_schedules": rep["explored_schedules"]})
            if rep.get("divergences"):
                cov["nonconformant_runs"] += len(rep["divergences"])
                cov["exhaustive"] = False
                dv = rep["divergences"][0]
                cov.setdefault("nonconformance", []).append({"program": name, "cap0": cap, "after": dv["path"][-6:], "want": dv["want"], "got": dv["got"], "err": dv.get("err", "")})
            for s in (rep.get("samples") or [])[:1]:
                v.sample({"program": name, "cap0": cap, "schedule": s})
            for viol in (rep.get("violations") or [])[:1]:
                rf = {"kind": "conc", "config": hcfg, "schedule": viol["schedule"], "allowed": rep["allowed"], "what": viol["what"]}
                tmp = sc.path("rf.json")
                json.dump(rf, open(tmp, "w"))
                pr = vlib.run([binp, "-replay", tmp], ok_codes=(0, 1))
                if pr.returncode != 1:
                    raise vlib.Broken("concurrent ring violation did not reproduce: " + viol["what"])
                v.violation(rf, "%s [program %s, initial capacity %d, schedule of %d gate steps]" % (viol["what"], name, cap, len(viol["schedule"])))
        os.remove(gjson)
        if v.violations:
            break


def conc_replay(sc, replay):
    binp = build_conc(sc)
    pr = vlib.run([binp, "-replay", replay], ok_codes=(0, 1))
    print(pr.stdout.strip())
    return pr.returncode


CHECKS = {"C14": run}
