#!/bin/sh
# usage: tools/mutrun.sh <patch.diff> <prop> [<prop>...]  -- apply a seeded change to /repo, run quick checks, undo it
patch="$1"; shift
cd /verif || exit 2
git -C /repo diff --quiet || { echo "/repo is dirty"; exit 2; }
git -C /repo apply "$patch" || { echo "patch does not apply"; exit 2; }
for p in "$@"; do
  echo "== $p"
  ./check "$p" ${TIER:-quick} 2>&1 | grep -E "^(OK|VIOLATION|KNOWN-FINDING|BROKEN)|^  " | cut -c1-300 | head -8
  echo "rc=$?"
done
git -C /repo checkout -- . 
git -C /repo status --short
