"""Common machinery for the /verif checks: TLC runner, Go builder, evidence, verdicts."""
import json
import os
import re
import shutil
import subprocess
import sys
import tempfile
import time

VERIF = os.path.dirname(os.path.dirname(os.path.abspath(__file__)))
REPO = os.environ.get("VERIF_REPO", "/repo")
SPECS = os.path.join(VERIF, "specs")
HARNESS = os.path.join(VERIF, "harness")
EVID = os.environ.get("VERIF_EVID") or os.path.join(VERIF, "evidence")
REPLAYS = os.path.join(EVID, "replays")
KNOWN = os.path.join(VERIF, "KNOWN_FINDINGS.txt")

GOENV = dict(os.environ)
GOENV.update({"GOFLAGS": "-mod=mod", "GOPROXY": "off", "GOSUMDB": "off", "GOTOOLCHAIN": "local",
              "CGO_ENABLED": os.environ.get("CGO_ENABLED", "1")})

EXIT_OK, EXIT_VIOLATION, EXIT_BROKEN = 0, 1, 2


class Broken(Exception):
    """Machinery failure (build error, TLC crash, timeout...). Never a violation."""


def seed():
    try:
        return int(os.environ.get("VERIF_SEED", "1"))
    except ValueError:
        return 1


def ncpu():
    return os.cpu_count() or 4


class Scratch:
    def __init__(self, tag):
        self.dir = tempfile.mkdtemp(prefix="verif-%s-" % tag)

    def path(self, *p):
        return os.path.join(self.dir, *p)

    def cleanup(self):
        if os.environ.get("VERIF_KEEP"):
            print("scratch kept:", self.dir)
            return
        shutil.rmtree(self.dir, ignore_errors=True)


# ----------------------------------------------------------------------------- TLC

_re_states = re.compile(r'(\d+) states generated, (\d+) distinct states found')
_re_inv = re.compile(r'Error: Invariant (\S+) is violated')
_re_prop = re.compile(r'Error: (?:Action|Temporal) propert(?:y|ies) (\S*)\s*(?:is|were) violated')


class TLCResult:
    def __init__(self):
        self.generated = 0
        self.distinct = 0
        self.ok = False
        self.violated = None    # invariant / property name
        self.out = ""
        self.wall = 0.0
        self.rc = None
        self.trace_text = ""
        self.depth = 0


def stage_specs(sc, extra=None):
    """copy every spec file into scratch/specs (TLC litters its cwd)."""
    d = sc.path("specs")
    if not os.path.isdir(d):
        shutil.copytree(SPECS, d)
    for src, name in (extra or {}).items():
        shutil.copy(src, os.path.join(d, name))
    return d


def tlc(sc, module, cfg, workers=None, timeout=600, dump=None, simulate=None, depth=None,
        extra_args=None, java_opts=None, cwd=None, seedval=None, deadlock=False):
    """Run TLC on specs/<module>.tla with config <cfg> inside the scratch copy."""
    d = cwd or stage_specs(sc)
    meta = tempfile.mkdtemp(prefix="meta-", dir=sc.dir)
    cmd = ["tlc", "-metadir", meta, "-config", cfg, "-workers", str(workers or "auto")]
    if not deadlock:
        cmd += ["-deadlock"]
    if dump:
        cmd += ["-dump", "dot,actionlabels", dump]
    if simulate:
        cmd += ["-simulate", simulate]
        if depth:
            cmd += ["-depth", str(depth)]
        cmd += ["-seed", str(seedval if seedval is not None else seed())]
    cmd += (extra_args or [])
    cmd += [module]
    env = dict(os.environ)
    if java_opts:
        env["JAVA_TOOL_OPTIONS"] = java_opts
    t0 = time.time()
    r = TLCResult()
    try:
        p = subprocess.run(cmd, cwd=d, env=env, stdout=subprocess.PIPE, stderr=subprocess.STDOUT,
                           timeout=timeout, text=True)
    except subprocess.TimeoutExpired as e:
        subprocess.run(["pkill", "-f", meta], check=False)
        raise Broken("TLC timeout after %ss: %s %s" % (timeout, module, cfg))
    finally:
        shutil.rmtree(meta, ignore_errors=True)
    r.wall = time.time() - t0
    r.out = p.stdout
    r.rc = p.returncode
    for m in _re_states.finditer(p.stdout):
        r.generated, r.distinct = int(m.group(1)), int(m.group(2))
    m = re.search(r'The depth of the complete state graph search is (\d+)', p.stdout)
    if m:
        r.depth = int(m.group(1))
    m = _re_inv.search(p.stdout)
    if m:
        r.violated = m.group(1)
    else:
        m = _re_prop.search(p.stdout)
        if m:
            r.violated = m.group(1) or "temporal"
        elif "Error: Deadlock reached" in p.stdout:
            r.violated = "Deadlock"
    if "Model checking completed. No error has been found." in p.stdout or \
       (simulate and p.returncode == 0):
        r.ok = True
    if r.violated:
        i = p.stdout.find("Error:")
        r.trace_text = p.stdout[i:]
    if not r.ok and not r.violated:
        lines = p.stdout.splitlines()
        errs = [" ".join(x.strip() for x in lines[i:i + 4]) for i, l in enumerate(lines) if l.startswith("Error:")][:2]
        raise Broken("TLC failed (rc=%s) on %s/%s: %s\n%s" % (p.returncode, module, cfg, " || ".join(errs)[:900], p.stdout[-3000:]))
    return r


def sany(path):
    p = subprocess.run(["tla-sany", os.path.basename(path)], cwd=os.path.dirname(path),
                       stdout=subprocess.PIPE, stderr=subprocess.STDOUT, text=True, timeout=120)
    if p.returncode != 0 or "Semantic errors" in p.stdout or "***Parse Error***" in p.stdout:
        raise Broken("SANY: %s\n%s" % (path, p.stdout[-2000:]))


# ----------------------------------------------------------------------------- Go

_modfile = None


def harness_modfile():
    """VERIF_REPO=<dir> points the checks at a scratch copy of the repository (development only: mutation runs);
    the harness module's `replace` is redirected through an alternate go.mod"""
    global _modfile
    if REPO == "/repo":
        return None
    if _modfile is None:
        d = tempfile.mkdtemp(prefix="verif-mod-")
        txt = open(os.path.join(HARNESS, "go.mod")).read().replace("=> /repo", "=> " + REPO)
        open(os.path.join(d, "go.mod"), "w").write(txt)
        shutil.copy(os.path.join(HARNESS, "go.sum"), os.path.join(d, "go.sum"))
        _modfile = os.path.join(d, "go.mod")
    return _modfile


def go(args, cwd=HARNESS, timeout=900, env=None, check=True, capture=True):
    mf = harness_modfile()
    if mf and cwd == HARNESS and args and args[0] in ("build", "run", "test", "vet", "list"):
        args = [args[0], "-modfile=" + mf] + list(args[1:])
    e = dict(GOENV)
    if env:
        e.update(env)
    try:
        p = subprocess.run(["go"] + args, cwd=cwd, env=e, timeout=timeout, text=True,
                           stdout=subprocess.PIPE if capture else None,
                           stderr=subprocess.STDOUT if capture else None)
    except subprocess.TimeoutExpired:
        raise Broken("go %s: timeout" % " ".join(args[:3]))
    if check and p.returncode != 0:
        raise Broken("go %s failed:\n%s" % (" ".join(args), (p.stdout or "")[-4000:]))
    return p


def go_build(sc, pkg, name, overlay=None, tags="verif", race=False):
    out = sc.path(name)
    args = ["build", "-tags", tags, "-o", out]
    if race:
        args.append("-race")
    if overlay:
        args += ["-overlay", overlay]
    args.append(pkg)
    go(args)
    return out


def run(cmd, timeout=900, cwd=None, env=None, ok_codes=(0,)):
    """Run a harness binary; returns CompletedProcess; Broken on timeout/unexpected rc."""
    e = dict(os.environ)
    if env:
        e.update(env)
    try:
        p = subprocess.run(cmd, cwd=cwd, env=e, timeout=timeout, text=True,
                           stdout=subprocess.PIPE, stderr=subprocess.PIPE)
    except subprocess.TimeoutExpired:
        raise Broken("timeout: %s" % " ".join(cmd[:4]))
    if ok_codes is not None and p.returncode not in ok_codes:
        raise Broken("rc=%d: %s\nstdout: %s\nstderr: %s" % (p.returncode, " ".join(cmd[:6]),
                                                            p.stdout[-3000:], p.stderr[-3000:]))
    return p


# ----------------------------------------------------------------------------- known findings

def known_findings(prop):
    out = []
    if os.path.exists(KNOWN):
        for line in open(KNOWN):
            line = line.strip()
            m = re.match(r'finding:\s+property=(\S+)\s+sig=(\S+)\s+(.*)$', line)
            if m and m.group(1) == prop:
                out.append({"sig": m.group(2), "what": m.group(3)})
    return out


# ----------------------------------------------------------------------------- evidence / verdict

class Verdict:
    def __init__(self, prop, tier, level="model_checking"):
        self.prop = prop
        self.tier = tier
        self.level = level
        self.t0 = time.time()
        self.coverage = {"states": 0, "transitions": 0, "traces_validated_against_impl": 0, "samples": [],
                         "nonconformant_runs": 0, "known_findings_seen": []}
        self.assumptions = []
        self.violations = []      # list of (replay_path, text)
        self.known_seen = {}

    def add_tlc(self, r, label):
        self.coverage["states"] += r.distinct
        self.coverage["transitions"] += max(r.generated - 1, 0) if r.generated else 0
        self.coverage.setdefault("tlc_runs", []).append(
            {"cfg": label, "distinct": r.distinct, "generated": r.generated, "wall_s": round(r.wall, 2),
             "result": "ok" if r.ok else ("violated:" + str(r.violated))})

    def sample(self, s, cap=6):
        if len(self.coverage["samples"]) < cap:
            self.coverage["samples"].append(s)

    def violation(self, replay_obj, text, sig=None):
        """register a property violation observed on the real code. sig: history signature for KNOWN matching"""
        if sig:
            for k in known_findings(self.prop):
                if k["sig"] == sig:
                    self.known_seen[sig] = k["what"]
                    return False
        os.makedirs(REPLAYS, exist_ok=True)
        path = os.path.join(REPLAYS, "%s_%d.json" % (self.prop, len(self.violations)))
        with open(path, "w") as f:
            json.dump(replay_obj, f, indent=1)
        self.violations.append((path, text))
        return True

    def finish(self):
        self.coverage["known_findings_seen"] = sorted(self.known_seen)
        ev = {"property_id": self.prop, "tier": self.tier, "seed": seed(), "level": self.level,
              "coverage": self.coverage, "assumptions": self.assumptions,
              "wall_s": round(time.time() - self.t0, 2), "violations": len(self.violations)}
        os.makedirs(EVID, exist_ok=True)
        with open(os.path.join(EVID, self.prop + ".json"), "w") as f:
            json.dump(ev, f, indent=1)
        for sig, what in sorted(self.known_seen.items()):
            print("KNOWN-FINDING: property=%s %s" % (self.prop, what))
        for path, text in self.violations:
            print("VIOLATION property=%s replay=%s" % (self.prop, path))
            print("  " + text)
        if self.violations:
            return EXIT_VIOLATION
        print("OK property=%s tier=%s states=%d transitions=%d impl_runs=%d wall=%.1fs" % (
            self.prop, self.tier, self.coverage["states"], self.coverage["transitions"],
            self.coverage["traces_validated_against_impl"], time.time() - self.t0))
        return EXIT_OK
