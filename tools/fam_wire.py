"""C15, C16 -- batched wire encoding.  Wire.tla (writer loop / reader loop, one action per
iteration) is model-checked by TLC over the complete bounded input space; TLC exports every case
with the deliveries it expects (B-table) and cmd/wiretable runs each case through the real
streamWriter.Invoke, MarshalVT/UnmarshalVT, streamReader.Receive and Engine.SendLocal."""
import json
import os

import overlay
import vlib

FIXES = ["FixNoSender", "FixKey", "FixHole", "FixNonProto", "FixBounds"]
INV15 = "TypeOK C15_Prefix C15_RoundTrip C15_NodeLives"
INV16 = "TypeOK C16_NoPanic C16_OnlyAddressed C16_ErrOnlyOnBad C16_AllOrError"


def cfg(mode, tp="MCTargets", sp="MCSenders", ty="MCTypes", dp="MCData", maxb=2, hidx="HIdxFull", hmax=1, off=None, export=True, invs=None,
        hty="HTy", htg="HTg", hsd="HSd", hdat="HDat", henvs=1):
    fx = " ".join("%s = %s" % (f, "FALSE" if f == off else "TRUE") for f in FIXES)
    return ("CONSTANTS Mode = \"%s\" TargetPool <- %s SenderPool <- %s TypePool <- %s DataPool <- %s MaxBatch = %d\n"
            " HTypeTabs <- %s HTargetTabs <- %s HSenderTabs <- %s HIdx <- %s HData <- %s HMaxMsgs = %d HMaxEnvs = %d\n"
            " %s Export = %s\nSPECIFICATION Spec\nINVARIANTS %s ExportCase\n" % (
                mode, tp, sp, ty, dp, maxb, hty, htg, hsd, hidx, hdat, hmax, henvs, fx, "TRUE" if export else "FALSE",
                invs or (INV15 if mode == "roundtrip" else INV16)))


PLAN = {
    "C15": {
        "quick": [("rt_len2_full", dict(mode="roundtrip", maxb=2)),
                  ("rt_len3_small", dict(mode="roundtrip", maxb=3, tp="MCTargets2", sp="MCSenders1", ty="MCTypes1", dp="MCData1")),
                  ("rt_len3_registered_type", dict(mode="roundtrip", maxb=3, tp="MCTargets2", sp="MCSenders1", ty="MCTypesReg", dp="MCData")),
                  ("rt_len2_big_payloads", dict(mode="roundtrip", maxb=2, tp="MCTargets2", sp="MCSenders1", ty="MCTypes1", dp="MCDataBig")),
                  ("rt_len3_dynamic_types", dict(mode="roundtrip", maxb=3, tp="MCTargets2", sp="MCSenders1", ty="MCTypesDyn", dp="MCData1")),
                  ("rt_len3_same_id_senders", dict(mode="roundtrip", maxb=3, tp="MCTargets2", sp="MCSendersD", ty="MCTypes1", dp="MCData1"))],
        "thorough": [("rt_len2_full", dict(mode="roundtrip", maxb=2)),
                     ("rt_len3_collide", dict(mode="roundtrip", maxb=3, sp="MCSendersC", dp="MCData1")),
                     ("rt_len4_small", dict(mode="roundtrip", maxb=4, tp="MCTargetsC", sp="MCSenders1", ty="MCTypes1", dp="MCData1")),
                     ("rt_len3_registered_type", dict(mode="roundtrip", maxb=3, tp="MCTargets2", sp="MCSenders1", ty="MCTypesReg", dp="MCData")),
                     ("rt_len3_big_payloads", dict(mode="roundtrip", maxb=3, tp="MCTargets2", sp="MCSenders1", ty="MCTypes1", dp="MCDataBig")),
                     ("rt_len3_dynamic_types", dict(mode="roundtrip", maxb=3, tp="MCTargets2", sp="MCSenders1", ty="MCTypesDyn", dp="MCData")),
                     ("rt_len3_same_id_senders", dict(mode="roundtrip", maxb=3, tp="MCTargets2", sp="MCSendersD", ty="MCTypes1", dp="MCData1"))],
    },
    "C16": {
        "quick": [("hostile_1msg_full", dict(mode="hostile", hidx="HIdxFull", hmax=1)),
                  ("hostile_2msg_small", dict(mode="hostile", hidx="HIdxTiny", hmax=2)),
                  ("hostile_2envs", dict(mode="hostile", hty="HTy2", htg="HTg1", hsd="HSd0", hidx="HIdx01", hdat="HDat1", hmax=1, henvs=2)),
                  ("hostile_writer_target", dict(mode="hostile", htg="HTgW", hsd="HSd0", hidx="HIdx01", hmax=1)),
                  ("hostile_response_target", dict(mode="hostile", hty="HTy2", htg="HTgR", hsd="HSd0", hidx="HIdx01", hdat="HDat1", hmax=2))],
        "thorough": [("hostile_1msg_full", dict(mode="hostile", hidx="HIdxFull", hmax=1)),
                     ("hostile_2msg", dict(mode="hostile", hidx="HIdxSmall", hmax=2)),
                     ("hostile_2envs", dict(mode="hostile", hty="HTy2", htg="HTg1", hsd="HSd0", hidx="HIdxTiny", hmax=2, henvs=2, hdat="HDat1")),
                     ("hostile_3envs", dict(mode="hostile", hty="HTy2", htg="HTg1", hsd="HSd0", hidx="HIdx01", hdat="HDat1", hmax=1, henvs=3)),
                     ("hostile_writer_target", dict(mode="hostile", htg="HTgW", hsd="HSd0", hidx="HIdxSmall", hmax=2)),
                     ("hostile_response_target", dict(mode="hostile", hty="HTy2", htg="HTgR", hsd="HSd0", hidx="HIdx01", hdat="HDat1", hmax=2))],
    },
}
REGRESSION = {
    "C15": [("FixNoSender", {"C15_Prefix", "C15_RoundTrip"}), ("FixKey", {"C15_Prefix", "C15_RoundTrip"}),
            ("FixHole", {"C15_Prefix", "C15_RoundTrip"}), ("FixNonProto", {"C15_NodeLives"})],
    "C16": [("FixBounds", {"C16_NoPanic"})],
}


def tlc_cases(sc, module, cfg_text, tag, timeout=1800):
    d = vlib.stage_specs(sc)
    with open(os.path.join(d, tag + ".cfg"), "w") as f:
        f.write(cfg_text)
    r = vlib.tlc(sc, module, tag + ".cfg", timeout=timeout)
    cases = []
    for line in r.out.splitlines():
        if line.startswith('<<"CASE", '):
            inner = line[len('<<"CASE", '):-2]
            cases.append(json.loads(json.loads(inner)))
    r.out = ""      # free memory
    return r, cases


def run(prop, tier, replay):
    sc = vlib.Scratch(prop)
    try:
        ov = overlay.write_overlay(sc, "ov.json")
        binp = vlib.go_build(sc, "./cmd/wiretable", "wiretable", overlay=ov)
        if replay:
            rf = json.load(open(replay))
            if rf.get("kind") == "race":
                race_bin = vlib.go_build(sc, "./cmd/wiretable", "wiretable_race", overlay=ov, race=True)
                sample = sc.path("race_cases.ndjson")
                open(sample, "w").write("".join(json.dumps(c) + "\n" for c in rf["cases"]))
                pr = vlib.run([race_bin, "-cases", sample, "-concurrent", "4"], ok_codes=None, timeout=600)
                print("REPRODUCED: data race" if "WARNING: DATA RACE" in pr.stderr else "NOT-REPRODUCED")
                return 1 if "WARNING: DATA RACE" in pr.stderr else 0
            p = sc.path("one.ndjson")
            open(p, "w").write(json.dumps(rf["case"]) + "\n")
            pr = vlib.run([binp, "-cases", p], ok_codes=None)
            print((pr.stdout.strip() or pr.stderr.strip())[:2000])
            return 0 if pr.returncode == 0 else 1
        v = vlib.Verdict(prop, tier)
        cov = v.coverage
        cov.update({"cases": 0, "exhaustive": True, "instances": []})
        v.assumptions += [
            "PIDs from a pool that contains pairs differing only in where address ends and id begins; payload types remote.TestMessage and actor.Ping; "
            "unserialisable payloads: a proto message with invalid UTF-8 (Marshal error) and a plain Go string (not a proto.Message)",
            "the in-memory stream replaces the dRPC transport; envelopes still pass through the real MarshalVT/UnmarshalVT",
            "C16 quantifies over Envelope values (tables of size 0..2, indices in {-2,-1,0,1,2,MaxInt32}, unknown type names, undecodable payloads), not over raw byte strings",
        ]
        race_pool = []
        for tag, kw in PLAN[prop][tier]:
            r, cases = tlc_cases(sc, "MCWire.tla", cfg(**kw), tag)
            if "response" not in tag:
                # the sample decoded on concurrent streams: the cases of each instance that deliver something first
                race_pool += sorted(cases, key=lambda c: -len(c.get("delivered") or []))[:150]
            v.add_tlc(r, tag)
            if r.violated:
                raise vlib.Broken("Wire.tla violates %s on %s: the model is wrong, not the code" % (r.violated, tag))
            if not cases:
                raise vlib.Broken("no cases exported for " + tag)
            cp = sc.path(tag + ".ndjson")
            with open(cp, "w") as f:
                for c in cases:
                    f.write(json.dumps(c) + "\n")
            prog = sc.path("progress.txt")
            pr = vlib.run([binp, "-cases", cp, "-progress", prog], ok_codes=None, timeout=3000)
            if pr.returncode not in (0, 1):
                # the process that plays the node died: a panic escaped into a goroutine nothing recovers
                k = int(open(prog).read().strip() or "0")
                rf = {"case": cases[k], "instance": tag, "what": "the node process died", "stderr": pr.stderr[-1500:]}
                tmp = sc.path("rf.ndjson")
                open(tmp, "w").write(json.dumps(cases[k]) + "\n")
                p2 = vlib.run([binp, "-cases", tmp], ok_codes=None)
                if p2.returncode in (0, 1):
                    raise vlib.Broken("wiretable died (rc=%d) near case %d and the case alone does not reproduce it:\n%s" % (pr.returncode, k, pr.stderr[-1500:]))
                first = next((l for l in pr.stderr.splitlines() if l.startswith("panic:") or l.startswith("fatal error:")), pr.stderr.strip()[:200])
                v.violation(rf, "the node process died while handling case %d of %s: %s" % (k, tag, first))
                break
            rep = json.loads(pr.stdout)
            cov["cases"] += rep["cases"]
            cov["traces_validated_against_impl"] += rep["cases"]
            cov["instances"].append({"instance": tag, "cases": rep["cases"], "failures": rep["nfail"]})
            for s in (rep["samples"] or [])[:2]:
                v.sample(s)
            for f in (rep["failures"] or [])[:3]:
                rf = {"case": f["case"], "got": f["got"], "what": f["what"], "instance": tag}
                tmp = sc.path("rf.ndjson")
                open(tmp, "w").write(json.dumps(f["case"]) + "\n")
                p2 = vlib.run([binp, "-cases", tmp], ok_codes=(0, 1))
                if p2.returncode != 1:
                    raise vlib.Broken("wire failure did not reproduce: " + f["what"])
                v.violation(rf, "%s [%s case %d]" % (f["what"], tag, f["index"]))
            if v.violations:
                break
        if prop == "C16" and not v.violations:
            # inbound streams are served by one goroutine each: decode a sample of the cases on several streams at once
            # in a binary built with -race; a data race between streams (shared, unsynchronised state) can kill the node
            race_bin = vlib.go_build(sc, "./cmd/wiretable", "wiretable_race", overlay=ov, race=True)
            sample = sc.path("race_cases.ndjson")
            with open(sample, "w") as f:
                for c in race_pool:
                    f.write(json.dumps(c) + "\n")
            pr = vlib.run([race_bin, "-cases", sample, "-concurrent", "4"], ok_codes=None, timeout=600, env={"GORACE": "halt_on_error=0 exitcode=66"})
            cov["concurrent_streams"] = {"streams": 4, "cases_each": len(race_pool), "race_detector_exit": pr.returncode}
            if pr.returncode == 66 or "WARNING: DATA RACE" in pr.stderr:
                i = pr.stderr.find("WARNING: DATA RACE")
                rf = {"kind": "race", "cases": race_pool, "report": pr.stderr[i:i + 2500]}
                where = [l.strip() for l in pr.stderr[i:].splitlines() if "/remote/" in l or "/actor/" in l][:2]
                v.violation(rf, "data race between concurrent inbound streams (shared state without synchronisation; Go aborts the process on a concurrent map access): %s" % "; ".join(where))
            elif pr.returncode != 0:
                raise vlib.Broken("wiretable -concurrent failed rc=%d: %s" % (pr.returncode, pr.stderr[-1500:]))
        # vacuity guard: each repair switched off must make TLC fail
        reg = {}
        for fix, want in REGRESSION[prop]:
            mode = "roundtrip" if prop == "C15" else "hostile"
            r, _ = tlc_cases(sc, "MCWire.tla", cfg(mode=mode, maxb=2, hmax=1, off=fix, export=False), "reg_" + fix)
            reg[fix] = r.violated or "NOT VIOLATED"
            if r.violated not in want:
                raise vlib.Broken("vacuity guard: %s=FALSE should violate one of %s, got %s" % (fix, sorted(want), r.violated))
        cov["regression_configs"] = reg
        return v.finish()
    finally:
        sc.cleanup()


CHECKS = {"C15": run, "C16": run}
