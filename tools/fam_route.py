"""Engine-level part of C01: Route.tla (Engine.Send / SendWithSender / Request, Context.Forward / Send / Respond)
is enumerated by TLC; every entry x script of the bounded space is executed on a real engine by cmd/routetable and
what every actor received -- which message, from which sender, in which order --, the dead letters and the value
returned by Result() are compared with what TLC computed (B-table)."""
import json

import fam_wire
import vlib


def cfg(actors, maxlen, export=True, keeps=False):
    b = lambda x: "TRUE" if x else "FALSE"
    return ("CONSTANTS Actors <- %s MaxLen = %d Export = %s RespondKeepsSender = %s\nSPECIFICATION Spec\nCHECK_DEADLOCK FALSE\n"
            "INVARIANTS TypeOK Faithful OneEnd RespondAnonymous ExportCase\nPROPERTIES Terminates\n" % (actors, maxlen, b(export), b(keeps)))


PLAN = {"quick": [("routes_2actors_len2", "A2", "a,b", 2)], "thorough": [("routes_3actors_len3", "A3", "a,b,c", 3)]}


def part(sc, v, tier):
    binp = vlib.go_build(sc, "./cmd/routetable", "routetable")
    cov = v.coverage
    cov["routes"] = []
    v.assumptions += ["engine level (Route.tla): one message in flight at a time, injected from outside the actors; up to 3 hops; "
                      "actors a, b (, c) and one unregistered target; sender identity compared by address and id"]
    for tag, actors, names, maxlen in PLAN[tier]:
        r, cases = fam_wire.tlc_cases(sc, "MCRoute.tla", cfg(actors, maxlen), tag)
        v.add_tlc(r, tag)
        if r.violated:
            raise vlib.Broken("Route.tla violates %s on %s: the model is wrong, not the code" % (r.violated, tag))
        if not cases:
            raise vlib.Broken("no cases exported for " + tag)
        cp = sc.path(tag + ".ndjson")
        with open(cp, "w") as f:
            for c in cases:
                f.write(json.dumps(c) + "\n")
        pr = vlib.run([binp, "-cases", cp, "-actors", names, "-workers", str(max(2, vlib.ncpu() // 2))], ok_codes=(0, 1), timeout=3000)
        rep = json.loads(pr.stdout)
        cov["traces_validated_against_impl"] += rep["cases"]
        cov["routes"].append({"instance": tag, "cases": rep["cases"], "deliveries": rep["hops"], "failures": len(rep["failures"] or [])})
        for fl in (rep["failures"] or [])[:3]:
            rf = {"kind": "route", "actors": names, "case": fl["case"], "what": fl["what"]}
            tmp = sc.path("rf.ndjson")
            open(tmp, "w").write(json.dumps(fl["case"]) + "\n")
            ok = False
            for _ in range(4):
                if vlib.run([binp, "-cases", tmp, "-actors", names, "-workers", "1"], ok_codes=(0, 1)).returncode == 1:
                    ok = True
                    break
            if not ok:
                raise vlib.Broken("route failure did not reproduce: " + fl["what"])
            e = fl["case"]["entry"]
            v.violation(rf, "%s [%s(%s -> %s) then %s]" % (fl["what"][:300], e["api"], e["from"], e["to"],
                                                          " ".join("%s:%s" % (i["k"], i["to"]) for i in fl["case"]["script"])))
        if v.violations:
            return
    # vacuity guard: a Respond that hands the responder on as sender must violate the model's invariant
    r, _ = fam_wire.tlc_cases(sc, "MCRoute.tla", cfg("A2", 2, export=False, keeps=True), "reg_route")
    cov["regression_respond_keeps_sender"] = r.violated or "NOT VIOLATED"
    if r.violated != "RespondAnonymous":
        raise vlib.Broken("vacuity guard: RespondKeepsSender should violate RespondAnonymous, got %s" % r.violated)


def replay(sc, rf):
    binp = vlib.go_build(sc, "./cmd/routetable", "routetable")
    tmp = sc.path("rf.ndjson")
    open(tmp, "w").write(json.dumps(rf["case"]) + "\n")
    pr = vlib.run([binp, "-cases", tmp, "-actors", rf["actors"], "-workers", "1"], ok_codes=(0, 1))
    print(pr.stdout.strip()[:2000])
    return pr.returncode
