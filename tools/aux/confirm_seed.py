#!/usr/bin/env python3
"""Confirms a seeded change in a scratch worktree of /repo (HEAD) and files it under /verif/seeded/<id>/:
   the change compiles, the existing suite passes with it, the demonstration fails with it and passes without it.
   usage: confirm_seed.py <prop> <n> <out_dir> [<id prefix, e.g. R2_>]"""
import json, os, re, shutil, subprocess, sys, time

ENV = dict(os.environ, GOFLAGS="-mod=mod", GOPROXY="off", GOSUMDB="off", GOTOOLCHAIN="local")
NS = "unshare -n bash -c 'ip link set lo up; ip link set lo multicast on; ip route add 224.0.0.0/4 dev lo; %s'"


def sh(cmd, cwd, timeout=1500):
    p = subprocess.run(cmd, shell=True, cwd=cwd, env=ENV, stdout=subprocess.PIPE, stderr=subprocess.STDOUT, text=True, timeout=timeout)
    return p.returncode, p.stdout


def suite(wt):
    """every package must pass in at least one of up to 3 isolated runs (the cluster tests are timing-flaky under load)"""
    ok = set()
    allp = {"actor", "cluster", "remote", "ringbuffer", "safemap"}
    log = []
    for i in range(6):
        rc, out = sh(NS % "go test -vet=off -count=1 -timeout 25m ./... 2>&1", wt)
        for m in re.finditer(r'^(ok|FAIL)\s+github.com/anthdm/hollywood/(\w+)', out, re.M):
            if m.group(1) == "ok":
                ok.add(m.group(2))
        log.append("run %d: ok=%s" % (i + 1, sorted(set(re.findall(r'^ok\s+github.com/anthdm/hollywood/(\w+)', out, re.M)))))
        if ok >= allp:
            break
    return ok >= allp, log


def main():
    prop, n, src = sys.argv[1], sys.argv[2], sys.argv[3]
    sid = "%s%s_m%s" % (sys.argv[4] if len(sys.argv) > 4 else "", prop, n)
    patch = os.path.join(src, "patch_rebased.diff") if os.path.exists(os.path.join(src, "patch_rebased.diff")) else os.path.join(src, "patch.diff")
    demo = os.path.join(src, "demo_test.go")
    notes = open(os.path.join(src, "notes.md")).read() if os.path.exists(os.path.join(src, "notes.md")) else ""
    pkgline = open(demo).read().split("package ", 1)[1].split()[0]
    pkg = pkgline.replace("_test", "")
    tests = sorted(set(re.findall(r'^func (Test\w+)\(', open(demo).read(), re.M)))
    wt = "/tmp/seedwt_" + sid
    subprocess.run(["git", "-C", "/repo", "worktree", "remove", "--force", wt], capture_output=True)
    subprocess.run(["git", "-C", "/repo", "worktree", "add", "-q", "--detach", wt, "HEAD"], check=True)
    meta = {"id": sid, "breaks": prop, "base_commit": subprocess.run(["git", "-C", "/repo", "rev-parse", "--short", "HEAD"], capture_output=True, text=True).stdout.strip(),
            "demo": {"file": "demo_test.go", "copy_into": pkg + "/", "tests": tests}}
    try:
        rc, out = sh("git apply %s && go build ./... && go vet ./%s/ >/dev/null 2>&1; go build ./..." % (patch, pkg), wt)
        meta["compiles"] = rc == 0
        if rc != 0:
            meta["error"] = out[-800:]
            return finish(meta, sid, patch, demo, notes, False)
        ok, log = suite(wt)
        meta["existing_suite_passes_with_change"] = ok
        meta["suite_runs"] = log
        shutil.copy(demo, os.path.join(wt, pkg, "zz_seed_demo_test.go"))
        run = "go test -vet=off -count=1 -timeout 10m -run '^(%s)$' ./%s/ 2>&1 | tail -15" % ("|".join(tests), pkg)
        rc1, out1 = sh(NS % run.replace("'", "'\\''"), wt)
        fails_with = "FAIL" in out1 and "ok  " not in out1.splitlines()[-1]
        meta["demo_fails_with_change"] = fails_with
        meta["demo_output_with_change"] = out1[-600:]
        sh("git apply -R %s" % patch, wt)
        rc2, out2 = sh(NS % run.replace("'", "'\\''"), wt)
        passes_without = out2.strip().splitlines()[-1].startswith("ok") if out2.strip() else False
        meta["demo_passes_without_change"] = passes_without
        meta["ran"] = ["git apply patch.diff; go build ./...", "go test -vet=off -count=1 ./... (private network namespace, up to 3 runs, every package ok at least once)",
                       "demo with the change: " + run, "git apply -R patch.diff; same demo"]
        return finish(meta, sid, patch, demo, notes, meta["compiles"] and ok and fails_with and passes_without)
    finally:
        subprocess.run(["git", "-C", "/repo", "worktree", "remove", "--force", wt], capture_output=True)


def finish(meta, sid, patch, demo, notes, confirmed):
    meta["confirmed"] = confirmed
    d = "/verif/seeded/" + sid
    os.makedirs(d, exist_ok=True)
    shutil.copy(patch, os.path.join(d, "patch.diff"))
    shutil.copy(demo, os.path.join(d, "demo_test.go"))
    if notes:
        open(os.path.join(d, "notes.md"), "w").write(notes)
    extra = os.path.join(d, "meta_extra.json")
    if os.path.exists(extra):
        meta.update(json.load(open(extra)))
    json.dump(meta, open(os.path.join(d, "meta.json"), "w"), indent=1)
    print(sid, "confirmed" if confirmed else "NOT CONFIRMED", {k: meta.get(k) for k in ("compiles", "existing_suite_passes_with_change", "demo_fails_with_change", "demo_passes_without_change")})


main()
