#!/bin/bash
# Runs the existing suite N times inside a private network namespace, so the
# mDNS based cluster tests do not see the clusters of other test runs that are
# going on concurrently on this machine.
# usage: suite.sh <repo> <n>
export GOFLAGS=-mod=mod GOPROXY=off GOSUMDB=off GOTOOLCHAIN=local
cd "$1" || exit 2
rc=0
for i in $(seq 1 "${2:-1}"); do
  unshare -n bash -c 'ip link set lo up; ip link set lo multicast on; ip route add 224.0.0.0/4 dev lo; timeout 900 go test -vet=off -count=1 -timeout 25m ./... 2>&1' \
    | grep -v "no test files" | grep -E "^(ok|FAIL|--- FAIL|panic:)"
  r=${PIPESTATUS[0]}
  [ "$r" -ne 0 ] && rc=1
  echo "--- run $i go-test-exit=$r"
done
exit $rc
