#!/bin/bash
# development aid: every thorough tier in sequence, with wall times (evidence goes to a scratch directory)
cd "$(dirname "$0")/../.."
mkdir -p /tmp/evid_thorough
for p in ${@:-C14 C15 C16 C18 C19 C20 C11 C09 C12 C17 C01 C02 C03 C10 C13 C04 C05 C06 C07 C08}; do
  s=$(date +%s)
  VERIF_EVID=/tmp/evid_thorough timeout 7200 ./check $p thorough 2>&1 | cut -c1-300 | grep -E "^(OK|VIOLATION|KNOWN|BROKEN)|^  " | head -6
  echo "== $p thorough took $(( $(date +%s)-s )) s rc=${PIPESTATUS[0]}"
done
