#!/bin/sh
# usage: tools/mutrun2.sh <name> <patch.diff> <prop> [<prop>...]
# runs quick checks against a scratch copy of /repo (HEAD) with the patch applied; /repo itself is not touched
name="$1"; patch="$2"; shift; shift
d=/tmp/mutrepo_$name
rm -rf "$d"; git -C /repo worktree prune; git -C /repo worktree add -q --detach "$d" HEAD || exit 2
git -C "$d" apply "$patch" 2>/dev/null || git -C "$d" apply --3way "$patch" || { echo "patch does not apply"; git -C /repo worktree remove --force "$d"; exit 2; }
cd /verif
for p in "$@"; do
  echo "== $name $p"
  VERIF_REPO="$d" VERIF_EVID=/tmp/mutevid_$name ./check "$p" ${TIER:-quick} 2>&1 | grep -E "^(OK|VIOLATION|KNOWN-FINDING|BROKEN)|^  " | cut -c1-300 | head -8
done
git -C /repo worktree remove --force "$d"
