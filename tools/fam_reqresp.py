"""C11 -- request/response.  ReqResp.tla (Request registers a one-shot Response, replies go into a
one-slot channel or to dead letter, Result returns a reply or times out and always unregisters) is
model-checked by TLC; every maximal history is exported with the outcomes TLC computed and replayed
on a real engine by cmd/reqscen with replies placed clearly before / during / after Result()."""
import json

import fam_wire
import overlay
import vlib


def cfg(nreq, maxrep, maxops, fixed=False, unreg=False, export=True, zero=99):
    b = lambda x: "TRUE" if x else "FALSE"
    return ("CONSTANTS NReq = %d MaxReplies = %d MaxOps = %d FixedPid = %s UnregOnTimeoutOnly = %s AllowBlocking = FALSE Export = %s ZeroFrom = %d\n"
            "SPECIFICATION Spec\nINVARIANTS TypeOK C11_Correlated C11_Unregistered C11_AtMostOnce C11_LateIsDead ExportCase\n" % (
                nreq, maxrep, maxops, b(fixed), b(unreg), b(export), zero))


# (nreq, maxrep, maxops[, first request issued with a timeout of zero])
PLAN = {"quick": [("req2_rep2_ops6", (2, 2, 6)), ("req2_zero_timeout_ops5", (2, 2, 5, 2))],
        "thorough": [("req2_rep3_ops8", (2, 3, 8)), ("req3_rep2_ops8", (3, 2, 8)), ("req3_zero_timeout_ops7", (3, 2, 7, 2))]}


def run(prop, tier, replay):
    sc = vlib.Scratch(prop)
    try:
        ov = overlay.write_overlay(sc, "ov.json")
        binp = vlib.go_build(sc, "./cmd/reqscen", "reqscen", overlay=ov)
        if replay:
            rf = json.load(open(replay))
            if rf.get("kind") == "crowd":
                for _ in range(3):
                    pr = vlib.run([binp, "-crowd", str(rf["rounds"]), "-crowd-k", "16"], ok_codes=(0, 1), timeout=1200)
                    if pr.returncode == 1:
                        break
                print(pr.stdout.strip()[:1000])
                return pr.returncode
            if rf.get("kind") == "stress":
                pr = vlib.run([binp, "-stress", str(rf["n"]), "-seed", str(rf["seed"])], ok_codes=(0, 1), timeout=600)
                print(pr.stdout.strip()[:1000])
                return pr.returncode
            p = sc.path("one.ndjson")
            open(p, "w").write(json.dumps(rf["case"]) + "\n")
            pr = vlib.run([binp, "-cases", p, "-workers", "1"], ok_codes=(0, 1))
            print(pr.stdout.strip()[:2000])
            return pr.returncode
        v = vlib.Verdict(prop, tier)
        cov = v.coverage
        cov.update({"cases": 0, "ops_executed": 0, "exhaustive": True, "instances": []})
        v.assumptions += [
            "replies are placed clearly before Result() is called, while it waits (well inside the 80 ms timeout) or after it has returned; the outcome of a reply racing the deadline itself is not decided",
            "one responder actor; requests issued from one goroutine; a timeout is reported as such only if at least the timeout has elapsed since Result() was called",
        ]
        unrepro = []
        for tag, params in PLAN[tier]:
            r, cases = fam_wire.tlc_cases(sc, "ReqResp.tla", cfg(*params[:3], zero=params[3] if len(params) > 3 else 99), tag)
            v.add_tlc(r, tag)
            if r.violated:
                raise vlib.Broken("ReqResp.tla violates %s on %s: the model is wrong, not the code" % (r.violated, tag))
            if not cases:
                raise vlib.Broken("no cases exported for " + tag)
            cp = sc.path(tag + ".ndjson")
            with open(cp, "w") as f:
                for c in cases:
                    f.write(json.dumps(c) + "\n")
            pr = vlib.run([binp, "-cases", cp, "-workers", str(max(4, 2 * vlib.ncpu()))], ok_codes=(0, 1), timeout=3000)
            rep = json.loads(pr.stdout)
            cov["cases"] += rep["cases"]
            cov["ops_executed"] += rep["ops"]
            cov["traces_validated_against_impl"] += rep["cases"]
            fails = rep["failures"] or []
            harness = [f for f in fails if f["what"].startswith("harness:")]
            if harness:
                raise vlib.Broken("reqscen: " + harness[0]["what"])
            cov["instances"].append({"instance": tag, "cases": rep["cases"], "failures": rep["nfail"]})
            for s in (rep["samples"] or [])[:2]:
                v.sample({"ops": s["hist"], "expected_outcome": s["outcome"], "expected_dead_letters": s["dead"]})
            for f in fails[:3]:
                rf = {"case": f["case"], "seen": f["seen"], "what": f["what"], "instance": tag}
                tmp = sc.path("rf.ndjson")
                open(tmp, "w").write(json.dumps(f["case"]) + "\n")
                ok = False
                for _ in range(10):
                    p2 = vlib.run([binp, "-cases", tmp, "-workers", "1"], ok_codes=(0, 1))
                    if p2.returncode == 1:
                        ok = True
                        break
                if not ok:
                    # (a failure that comes and goes: the free-running parts below may pin it down; if they do not, the
                    # check ends as broken, not as a verdict)
                    unrepro.append(f["what"])
                    continue
                v.violation(rf, "%s [%s case %d: %s]" % (f["what"][:300], tag, f["index"], " ".join("%s(%d)" % (o["op"], o["r"]) for o in f["case"]["hist"])))
            if v.violations:
                break
        if not v.violations:
            # replies racing the deadline (free-running; either outcome accepted, the C11 clauses that hold both ways are judged)
            n = 300 if tier == "quick" else 3000
            tot = 0
            for k in range(4 if tier == "quick" else 8):
                pr = vlib.run([binp, "-stress", str(n), "-seed", str(vlib.seed() + k)], ok_codes=(0, 1), timeout=600)
                rep = json.loads(pr.stdout)
                tot += rep["requests"]
                if rep["what"]:
                    rf = {"kind": "stress", "n": n, "seed": vlib.seed() + k, "what": rep["what"]}
                    again = [json.loads(vlib.run([binp, "-stress", str(n), "-seed", str(vlib.seed() + k)], ok_codes=(0, 1), timeout=600).stdout)["what"] for _ in range(3)]
                    if not any(again):
                        raise vlib.Broken("deadline-race failure did not reproduce: " + rep["what"])
                    v.violation(rf, rep["what"] + " [deadline-race stress]")
                    break
            cov["deadline_race_requests"] = tot
        if not v.violations:
            # concurrent requesters (free-running; judged by the clauses every history of ReqResp.tla satisfies)
            rounds = 1500 if tier == "quick" else 20000
            pr = vlib.run([binp, "-crowd", str(rounds), "-crowd-k", "16"], ok_codes=(0, 1), timeout=1200)
            rep = json.loads(pr.stdout)
            cov["concurrent_requests"] = rep["requests"]
            if rep["what"]:
                rf = {"kind": "crowd", "rounds": rounds, "what": rep["what"]}
                again = [json.loads(vlib.run([binp, "-crowd", str(rounds), "-crowd-k", "16"], ok_codes=(0, 1), timeout=1200).stdout)["what"] for _ in range(3)]
                if any(again):
                    v.violation(rf, rep["what"] + " [concurrent requesters]")
                else:
                    # response ids are random 31-bit numbers: a collision between two outstanding requests is possible
                    # (about 1e-4 per run of this size) and outside the property; a failure that never shows again is noted
                    cov["concurrent_requests_unreproduced"] = rep["what"]
        if unrepro and not v.violations:
            raise vlib.Broken("request/response failure did not reproduce: " + unrepro[0])
        reg = {}
        for name, kw, want in (("FixedPid", dict(fixed=True), {"C11_Correlated", "C11_Unregistered", "C11_LateIsDead"}),
                               ("UnregOnTimeoutOnly", dict(unreg=True), {"C11_Unregistered"})):
            r, _ = fam_wire.tlc_cases(sc, "ReqResp.tla", cfg(2, 2, 6, export=False, **kw), "reg_" + name)
            reg[name] = r.violated or "NOT VIOLATED"
            if r.violated not in want:
                raise vlib.Broken("vacuity guard: %s should violate one of %s, got %s" % (name, sorted(want), r.violated))
        cov["regression_configs"] = reg
        return v.finish()
    finally:
        sc.cleanup()


CHECKS = {"C11": run}
