//go:build verif

package remote

// Accessors for the /verif conformance harness (added at build time with -overlay; never part of
// a normal build).  They run the real streamWriter.Invoke and the real streamReader.Receive on
// in-memory streams.

import (
	"context"
	"fmt"
	"io"
	"net"

	"github.com/anthdm/hollywood/actor"
	"storj.io/drpc"
)

type VerifMsg struct {
	Target *actor.PID
	Sender *actor.PID
	Msg    any
}

type verifStream struct {
	sent []*Envelope
	recv []*Envelope
	pos  int
}

func (s *verifStream) Context() context.Context                          { return context.Background() }
func (s *verifStream) MsgSend(msg drpc.Message, enc drpc.Encoding) error { return nil }
func (s *verifStream) MsgRecv(msg drpc.Message, enc drpc.Encoding) error { return io.EOF }
func (s *verifStream) CloseSend() error                                  { return nil }
func (s *verifStream) Close() error                                      { return nil }
func (s *verifStream) Send(e *Envelope) error                            { s.sent = append(s.sent, e); return nil }
func (s *verifStream) Recv() (*Envelope, error) {
	if s.pos >= len(s.recv) {
		return nil, context.Canceled // the reader treats this as a regular end of stream
	}
	s.pos++
	return s.recv[s.pos-1], nil
}

// VerifEncode runs the real streamWriter.Invoke on one batch and returns the envelopes it wrote.
func VerifEncode(e *actor.Engine, msgs []VerifMsg) (envs []*Envelope, panicked any) {
	c1, c2 := net.Pipe()
	defer c1.Close()
	defer c2.Close()
	fs := &verifStream{}
	sw := newStreamWriter(e, actor.NewPID(e.Address(), "verif/router"), "127.0.0.1:1", nil, 0).(*streamWriter)
	sw.stream = fs
	sw.rawconn = c1
	batch := make([]actor.Envelope, len(msgs))
	for i, m := range msgs {
		batch[i] = actor.Envelope{Msg: &streamDeliver{target: m.Target, sender: m.Sender, msg: m.Msg}}
	}
	defer func() {
		if v := recover(); v != nil {
			panicked = fmt.Sprint(v)
			envs = fs.sent
		}
	}()
	sw.Invoke(batch)
	return fs.sent, nil
}

// VerifDecode feeds envelopes to the real streamReader.Receive of a Remote bound to e.
func VerifDecode(e *actor.Engine, envs []*Envelope) (err error, panicked any) {
	r := newStreamReader(&Remote{engine: e})
	fs := &verifStream{recv: envs}
	defer func() {
		if v := recover(); v != nil {
			panicked = fmt.Sprint(v)
		}
	}()
	return r.Receive(fs), nil
}

// VerifUnwrapDeliver exposes the fields of a *streamDeliver (dead-lettered by an unreachable writer).
func VerifUnwrapDeliver(m any) (target, sender *actor.PID, msg any, ok bool) {
	sd, ok := m.(*streamDeliver)
	if !ok {
		return nil, nil, nil, false
	}
	return sd.target, sd.sender, sd.msg, true
}

// verifWriter is a real streamWriter registered as a process without dialing anybody: its inbox runs, its Invoke is
// the real one (writing to an in-memory stream).  onSend sees what is sent to it.
type verifWriter struct {
	*streamWriter
	onSend func(pid *actor.PID, msg any, sender *actor.PID)
}

func (v *verifWriter) Start() { v.inbox.Start(v.streamWriter) }
func (v *verifWriter) Send(pid *actor.PID, msg any, sender *actor.PID) {
	v.onSend(pid, msg, sender)
	v.streamWriter.Send(pid, msg, sender)
}

// VerifSpawnWriter registers a stream writer for address addr on e (PID stream/<addr>).
func VerifSpawnWriter(e *actor.Engine, addr string, onSend func(pid *actor.PID, msg any, sender *actor.PID)) *actor.PID {
	c1, _ := net.Pipe()
	sw := newStreamWriter(e, actor.NewPID(e.Address(), "verif/router"), addr, nil, 0).(*streamWriter)
	sw.stream = &verifStream{}
	sw.rawconn = c1
	return e.SpawnProc(&verifWriter{streamWriter: sw, onSend: onSend})
}
