//go:build verif

package actor

import "context"

// VerifStopWaiter returns the stop-waiter entry points of a fresh process of the given engine: the registration a
// Stop / Poison caller makes (process.onStopped) and the release the process performs when it has stopped
// (process.stoppedNow).  Used by the lock-level harness of specs/StopWait.tla.
func VerifStopWaiter(e *Engine) (register func(context.CancelFunc), release func()) {
	p := newProcess(e, DefaultOpts(func() Receiver { return nil }))
	return p.onStopped, p.stoppedNow
}
