//go:build verif

package actor

import (
	"strings"
	"sync/atomic"
)

// VerifQuiet reports whether every process whose id starts with prefix has an empty inbox and no inbox worker running
// or scheduled: everything sent to them so far has been handled (a handler that passes a message on to another of
// them pushes it before its own worker goes idle, so nothing is in flight between them either).  Used by harnesses as a
// barrier where the code under test forwards a message through an intermediate actor and nothing observable tells
// when it has arrived.
func VerifQuiet(e *Engine, prefix string) bool {
	e.Registry.mu.RLock()
	defer e.Registry.mu.RUnlock()
	for id, proc := range e.Registry.lookup {
		if !strings.HasPrefix(id, prefix) {
			continue
		}
		p, ok := proc.(*process)
		if !ok {
			continue
		}
		in, ok := p.inbox.(*Inbox)
		if !ok {
			continue
		}
		if atomic.LoadInt32(&in.procStatus) == running || in.rb.Len() != 0 {
			return false
		}
	}
	return true
}
