// Package graph loads a TLC state graph (converted from `-dump dot,actionlabels` by
// tools/tlaval.py) and enumerates an edge cover: a set of paths from an initial
// state that together traverse every edge at least once.
package graph

import (
	"encoding/json"
	"fmt"
	"math/rand"
	"os"
)

type Edge struct {
	Src, Dst string
	Act      string
	Args     []json.RawMessage
}

type Graph struct {
	Nodes map[string]json.RawMessage
	Init  []string
	Edges []Edge
	Out   map[string][]int // node -> indices into Edges
	// BFS tree from Init[0]
	parentEdge map[string]int
	depth      map[string]int
}

type rawGraph struct {
	Nodes map[string]json.RawMessage `json:"nodes"`
	Init  []string                   `json:"init"`
	Edges [][]json.RawMessage        `json:"edges"`
}

func Load(path string) (*Graph, error) {
	b, err := os.ReadFile(path)
	if err != nil {
		return nil, err
	}
	var rg rawGraph
	if err := json.Unmarshal(b, &rg); err != nil {
		return nil, err
	}
	g := &Graph{Nodes: rg.Nodes, Init: rg.Init, Out: map[string][]int{}}
	for _, e := range rg.Edges {
		if len(e) != 4 {
			return nil, fmt.Errorf("bad edge")
		}
		var ed Edge
		_ = json.Unmarshal(e[0], &ed.Src)
		_ = json.Unmarshal(e[1], &ed.Dst)
		_ = json.Unmarshal(e[2], &ed.Act)
		_ = json.Unmarshal(e[3], &ed.Args)
		g.Edges = append(g.Edges, ed)
	}
	for i, e := range g.Edges {
		g.Out[e.Src] = append(g.Out[e.Src], i)
	}
	if len(g.Init) == 0 {
		return nil, fmt.Errorf("graph has no initial state")
	}
	return g, nil
}

func (g *Graph) bfs(root string) {
	g.parentEdge = map[string]int{root: -1}
	g.depth = map[string]int{root: 0}
	queue := []string{root}
	for len(queue) > 0 {
		n := queue[0]
		queue = queue[1:]
		for _, ei := range g.Out[n] {
			d := g.Edges[ei].Dst
			if _, ok := g.parentEdge[d]; !ok {
				g.parentEdge[d] = ei
				g.depth[d] = g.depth[n] + 1
				queue = append(queue, d)
			}
		}
	}
}

func (g *Graph) pathTo(n string) []int {
	var rev []int
	for {
		ei := g.parentEdge[n]
		if ei < 0 {
			break
		}
		rev = append(rev, ei)
		n = g.Edges[ei].Src
	}
	for i, j := 0, len(rev)-1; i < j; i, j = i+1, j-1 {
		rev[i], rev[j] = rev[j], rev[i]
	}
	return rev
}

// Terminal reports whether the node has no outgoing edge.
func (g *Graph) Terminal(n string) bool { return len(g.Out[n]) == 0 }

// Cover calls run for successive paths (edge indices, starting at Init[0]) until every
// reachable edge has been traversed, maxRuns is reached (0 = unlimited) or run returns false.
// Each path = BFS-shortest prefix to an uncovered edge, then a greedy walk over uncovered
// edges (bounded by maxLen). The order in which uncovered edges are picked is seeded.
// Returns edges covered and total reachable edges.
func (g *Graph) Cover(seed int64, maxRuns, maxLen int, run func(path []int) bool) (covered, total int) {
	root := g.Init[0]
	g.bfs(root)
	rng := rand.New(rand.NewSource(seed))
	order := make([]int, 0, len(g.Edges))
	for i, e := range g.Edges {
		if _, ok := g.parentEdge[e.Src]; ok {
			order = append(order, i)
		}
	}
	total = len(order)
	rng.Shuffle(len(order), func(i, j int) { order[i], order[j] = order[j], order[i] })
	visited := make([]bool, len(g.Edges))
	next := map[string]int{} // per node cursor into Out
	runs := 0
	for _, ei := range order {
		if visited[ei] {
			continue
		}
		path := append(g.pathTo(g.Edges[ei].Src), ei)
		for _, pe := range path {
			if !visited[pe] {
				visited[pe] = true
				covered++
			}
		}
		cur := g.Edges[ei].Dst
		for maxLen == 0 || len(path) < maxLen {
			outs := g.Out[cur]
			found := -1
			for c := next[cur]; c < len(outs); c++ {
				if !visited[outs[c]] {
					found = outs[c]
					next[cur] = c + 1
					break
				}
				next[cur] = c + 1
			}
			if found < 0 {
				break
			}
			visited[found] = true
			covered++
			path = append(path, found)
			cur = g.Edges[found].Dst
		}
		runs++
		if !run(path) {
			return
		}
		if maxRuns > 0 && runs >= maxRuns {
			return
		}
	}
	return
}
