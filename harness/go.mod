module verifharness

go 1.22.12

toolchain go1.23.5

require (
	github.com/anthdm/hollywood v0.0.0
	google.golang.org/protobuf v1.32.0
)

require (
	github.com/DataDog/gostackparse v0.7.0 // indirect
	github.com/golang/protobuf v1.5.3 // indirect
	github.com/klauspost/cpuid/v2 v2.0.9 // indirect
	github.com/planetscale/vtprotobuf v0.5.0 // indirect
	github.com/zeebo/errs v1.2.2 // indirect
	github.com/zeebo/xxh3 v1.0.2 // indirect
	golang.org/x/net v0.34.0 // indirect
	golang.org/x/sys v0.29.0 // indirect
	golang.org/x/text v0.21.0 // indirect
	google.golang.org/genproto/googleapis/rpc v0.0.0-20231002182017-d307bd883b97 // indirect
	google.golang.org/grpc v1.60.1 // indirect
	storj.io/drpc v0.0.33 // indirect
)

replace github.com/anthdm/hollywood => /repo
