// Package sched is the gate scheduler used for B-graph binding: shimmed copies of the
// repository's lock-free / locking code call Gate before every atomic, mutex and ring
// operation.  When a Controller is active and the calling goroutine is registered with
// it, Gate parks the goroutine until the driver releases it for exactly one operation.
// Without an active controller every gate is a no-op, so shimmed code also runs freely.
package sched

import (
	"fmt"
	"runtime"
	"sync"
	"sync/atomic"
	"time"
)

// Op describes the operation a goroutine is parked in front of.
type Op struct {
	Kind string  // "CAS32", "Load32", "Swap32", "Store32", "Add64", "Load64", "Lock", "Unlock", "RLock", "RUnlock", "Push", "PopN", "Pop", "Len", "InvEnter", "InvExit", ...
	Addr uintptr // identity of the variable / object operated on
	A, B int64   // arguments (old/new, delta, n)
	Obj  any     // optional: the object (e.g. *Mutex) so the driver can ask whether the op is enabled
}

func (o Op) String() string { return fmt.Sprintf("%s(%#x,%d,%d)", o.Kind, o.Addr, o.A, o.B) }

const (
	stRunning = iota
	stParked
	stDone
)

type G struct {
	ID     int
	Name   string
	Parent *G
	Op     Op
	Panic  any
	state  int
	wake   chan struct{}
	c      *Controller
}

func (g *G) Parked() bool { g.c.mu.Lock(); defer g.c.mu.Unlock(); return g.state == stParked }
func (g *G) Done() bool   { g.c.mu.Lock(); defer g.c.mu.Unlock(); return g.state == stDone }

type Controller struct {
	mu      sync.Mutex
	gs      []*G
	bygoid  map[int64]*G
	running int
	quiet   chan struct{}
	aborted bool
	Timeout time.Duration
	// OnNew is called (with c.mu held) when a goroutine is created through Go by a registered goroutine.
	created []*G
}

var active atomic.Pointer[Controller]

func NewController() *Controller {
	c := &Controller{bygoid: map[int64]*G{}, quiet: make(chan struct{}, 1), Timeout: 5 * time.Second}
	active.Store(c)
	return c
}

func goid() int64 {
	var buf [40]byte
	n := runtime.Stack(buf[:], false)
	// "goroutine 123 ["
	var id int64
	for i := 10; i < n; i++ {
		ch := buf[i]
		if ch < '0' || ch > '9' {
			break
		}
		id = id*10 + int64(ch-'0')
	}
	return id
}

func (c *Controller) signalIfQuiet() {
	if c.running == 0 {
		select {
		case c.quiet <- struct{}{}:
		default:
		}
	}
}

// Gate parks the calling goroutine in front of op (if it is under control).
func Gate(op Op) {
	c := active.Load()
	if c == nil {
		return
	}
	id := goid()
	c.mu.Lock()
	g := c.bygoid[id]
	if g == nil || c.aborted {
		c.mu.Unlock()
		return
	}
	g.Op = op
	g.state = stParked
	c.running--
	c.signalIfQuiet()
	c.mu.Unlock()
	<-g.wake
	c.mu.Lock()
	ab := c.aborted
	c.mu.Unlock()
	if ab {
		runtime.Goexit()
	}
}

// Controlled reports whether the calling goroutine is registered with an active controller.
func Controlled() bool {
	c := active.Load()
	if c == nil {
		return false
	}
	id := goid()
	c.mu.Lock()
	defer c.mu.Unlock()
	return c.bygoid[id] != nil && !c.aborted
}

func (c *Controller) start(g *G, f func()) {
	go func() {
		id := goid()
		c.mu.Lock()
		c.bygoid[id] = g
		c.mu.Unlock()
		defer func() {
			r := recover()
			c.mu.Lock()
			if r != nil {
				g.Panic = r
			}
			delete(c.bygoid, id)
			if g.state == stRunning {
				c.running--
			}
			g.state = stDone
			c.signalIfQuiet()
			c.mu.Unlock()
		}()
		f()
	}()
}

// Go replaces the `go` statement in shimmed code.
func Go(f func()) {
	c := active.Load()
	if c == nil {
		go f()
		return
	}
	id := goid()
	c.mu.Lock()
	parent := c.bygoid[id]
	if parent == nil || c.aborted {
		c.mu.Unlock()
		go f()
		return
	}
	g := &G{ID: len(c.gs), Parent: parent, wake: make(chan struct{}), c: c, state: stRunning}
	c.gs = append(c.gs, g)
	c.created = append(c.created, g)
	c.running++
	c.mu.Unlock()
	c.start(g, f)
}

// Spawn starts a named driver thread and waits until everything is parked again.
func (c *Controller) Spawn(name string, f func()) (*G, error) {
	c.mu.Lock()
	g := &G{ID: len(c.gs), Name: name, wake: make(chan struct{}), c: c, state: stRunning}
	c.gs = append(c.gs, g)
	c.running++
	c.drain()
	c.mu.Unlock()
	c.start(g, f)
	return g, c.waitQuiet()
}

func (c *Controller) drain() {
	select {
	case <-c.quiet:
	default:
	}
}

func (c *Controller) waitQuiet() error {
	t := time.NewTimer(c.Timeout)
	defer t.Stop()
	for {
		select {
		case <-c.quiet:
			c.mu.Lock()
			r := c.running
			c.mu.Unlock()
			if r == 0 {
				return nil
			}
		case <-t.C:
			return fmt.Errorf("sched: not quiescent after %v (a controlled goroutine blocks outside a gate)", c.Timeout)
		}
	}
}

// Step releases g for exactly one operation and waits until every controlled goroutine is
// parked or finished again. It returns the goroutines created during the step.
func (c *Controller) Step(g *G) ([]*G, error) {
	c.mu.Lock()
	if g.state != stParked {
		c.mu.Unlock()
		return nil, fmt.Errorf("sched: %s is not parked", g.Name)
	}
	g.state = stRunning
	c.running++
	c.created = nil
	c.drain()
	c.mu.Unlock()
	g.wake <- struct{}{}
	err := c.waitQuiet()
	c.mu.Lock()
	cr := c.created
	c.created = nil
	c.mu.Unlock()
	return cr, err
}

// All returns every goroutine ever registered.
func (c *Controller) All() []*G {
	c.mu.Lock()
	defer c.mu.Unlock()
	return append([]*G(nil), c.gs...)
}

// ParkedGs returns the goroutines currently parked at a gate.
func (c *Controller) ParkedGs() []*G {
	c.mu.Lock()
	defer c.mu.Unlock()
	var out []*G
	for _, g := range c.gs {
		if g.state == stParked {
			out = append(out, g)
		}
	}
	return out
}

// Abort ends the run: every parked goroutine exits (runtime.Goexit, deferred calls run with
// gates disabled), later gates are no-ops.
func (c *Controller) Abort() {
	c.mu.Lock()
	c.aborted = true
	var parked []*G
	for _, g := range c.gs {
		if g.state == stParked {
			parked = append(parked, g)
			g.state = stRunning
			c.running++
		}
	}
	c.drain()
	c.mu.Unlock()
	for _, g := range parked {
		g.wake <- struct{}{}
	}
	if len(parked) > 0 {
		_ = c.waitQuiet()
	}
	active.CompareAndSwap(c, nil)
}
