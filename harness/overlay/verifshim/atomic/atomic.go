// Package atomic mirrors the parts of sync/atomic the repository uses; every operation
// first passes a scheduling gate (see verifshim/sched).
package atomic

import (
	ra "sync/atomic"
	"unsafe"

	"github.com/anthdm/hollywood/verifshim/sched"
)

func gate(kind string, p unsafe.Pointer, a, b int64) {
	sched.Gate(sched.Op{Kind: kind, Addr: uintptr(p), A: a, B: b})
}

func CompareAndSwapInt32(addr *int32, old, new int32) bool {
	gate("CAS32", unsafe.Pointer(addr), int64(old), int64(new))
	return ra.CompareAndSwapInt32(addr, old, new)
}
func LoadInt32(addr *int32) int32 {
	gate("Load32", unsafe.Pointer(addr), 0, 0)
	return ra.LoadInt32(addr)
}
func StoreInt32(addr *int32, v int32) {
	gate("Store32", unsafe.Pointer(addr), int64(v), 0)
	ra.StoreInt32(addr, v)
}
func SwapInt32(addr *int32, v int32) int32 {
	gate("Swap32", unsafe.Pointer(addr), int64(v), 0)
	return ra.SwapInt32(addr, v)
}
func AddInt32(addr *int32, d int32) int32 {
	gate("Add32", unsafe.Pointer(addr), int64(d), 0)
	return ra.AddInt32(addr, d)
}
func CompareAndSwapInt64(addr *int64, old, new int64) bool {
	gate("CAS64", unsafe.Pointer(addr), old, new)
	return ra.CompareAndSwapInt64(addr, old, new)
}
func LoadInt64(addr *int64) int64 {
	gate("Load64", unsafe.Pointer(addr), 0, 0)
	return ra.LoadInt64(addr)
}
func StoreInt64(addr *int64, v int64) {
	gate("Store64", unsafe.Pointer(addr), v, 0)
	ra.StoreInt64(addr, v)
}
func SwapInt64(addr *int64, v int64) int64 {
	gate("Swap64", unsafe.Pointer(addr), v, 0)
	return ra.SwapInt64(addr, v)
}
func AddInt64(addr *int64, d int64) int64 {
	gate("Add64", unsafe.Pointer(addr), d, 0)
	return ra.AddInt64(addr, d)
}
func CompareAndSwapUint32(addr *uint32, old, new uint32) bool {
	gate("CASU32", unsafe.Pointer(addr), int64(old), int64(new))
	return ra.CompareAndSwapUint32(addr, old, new)
}
func LoadUint32(addr *uint32) uint32 {
	gate("LoadU32", unsafe.Pointer(addr), 0, 0)
	return ra.LoadUint32(addr)
}
func StoreUint32(addr *uint32, v uint32) {
	gate("StoreU32", unsafe.Pointer(addr), int64(v), 0)
	ra.StoreUint32(addr, v)
}
func AddUint32(addr *uint32, d uint32) uint32 {
	gate("AddU32", unsafe.Pointer(addr), int64(d), 0)
	return ra.AddUint32(addr, d)
}
func LoadUint64(addr *uint64) uint64 {
	gate("LoadU64", unsafe.Pointer(addr), 0, 0)
	return ra.LoadUint64(addr)
}
func StoreUint64(addr *uint64, v uint64) {
	gate("StoreU64", unsafe.Pointer(addr), int64(v), 0)
	ra.StoreUint64(addr, v)
}
func AddUint64(addr *uint64, d uint64) uint64 {
	gate("AddU64", unsafe.Pointer(addr), int64(d), 0)
	return ra.AddUint64(addr, d)
}
func CompareAndSwapUint64(addr *uint64, old, new uint64) bool {
	gate("CASU64", unsafe.Pointer(addr), int64(old), int64(new))
	return ra.CompareAndSwapUint64(addr, old, new)
}

// Typed atomics: same gates, keyed by the address of the value.

type Int32 struct{ v int32 }

func (x *Int32) Load() int32           { return LoadInt32(&x.v) }
func (x *Int32) Store(v int32)         { StoreInt32(&x.v, v) }
func (x *Int32) Swap(v int32) int32    { return SwapInt32(&x.v, v) }
func (x *Int32) Add(d int32) int32     { return AddInt32(&x.v, d) }
func (x *Int32) CompareAndSwap(o, n int32) bool { return CompareAndSwapInt32(&x.v, o, n) }

type Int64 struct{ v int64 }

func (x *Int64) Load() int64           { return LoadInt64(&x.v) }
func (x *Int64) Store(v int64)         { StoreInt64(&x.v, v) }
func (x *Int64) Swap(v int64) int64    { return SwapInt64(&x.v, v) }
func (x *Int64) Add(d int64) int64     { return AddInt64(&x.v, d) }
func (x *Int64) CompareAndSwap(o, n int64) bool { return CompareAndSwapInt64(&x.v, o, n) }

type Uint32 struct{ v uint32 }

func (x *Uint32) Load() uint32          { return LoadUint32(&x.v) }
func (x *Uint32) Store(v uint32)        { StoreUint32(&x.v, v) }
func (x *Uint32) Add(d uint32) uint32   { return AddUint32(&x.v, d) }
func (x *Uint32) CompareAndSwap(o, n uint32) bool { return CompareAndSwapUint32(&x.v, o, n) }

type Uint64 struct{ v uint64 }

func (x *Uint64) Load() uint64          { return LoadUint64(&x.v) }
func (x *Uint64) Store(v uint64)        { StoreUint64(&x.v, v) }
func (x *Uint64) Add(d uint64) uint64   { return AddUint64(&x.v, d) }
func (x *Uint64) CompareAndSwap(o, n uint64) bool { return CompareAndSwapUint64(&x.v, o, n) }

type Bool struct{ v int32 }

func b2i(b bool) int32 {
	if b {
		return 1
	}
	return 0
}
func (x *Bool) Load() bool         { return LoadInt32(&x.v) != 0 }
func (x *Bool) Store(v bool)       { StoreInt32(&x.v, b2i(v)) }
func (x *Bool) Swap(v bool) bool   { return SwapInt32(&x.v, b2i(v)) != 0 }
func (x *Bool) CompareAndSwap(o, n bool) bool { return CompareAndSwapInt32(&x.v, b2i(o), b2i(n)) }

type Value = ra.Value
type Pointer[T any] struct{ p ra.Pointer[T] }

func (x *Pointer[T]) Load() *T {
	gate("LoadP", unsafe.Pointer(x), 0, 0)
	return x.p.Load()
}
func (x *Pointer[T]) Store(v *T) {
	gate("StoreP", unsafe.Pointer(x), 0, 0)
	x.p.Store(v)
}
func (x *Pointer[T]) Swap(v *T) *T {
	gate("SwapP", unsafe.Pointer(x), 0, 0)
	return x.p.Swap(v)
}
func (x *Pointer[T]) CompareAndSwap(o, n *T) bool {
	gate("CASP", unsafe.Pointer(x), 0, 0)
	return x.p.CompareAndSwap(o, n)
}
