// Package ring wraps the real ringbuffer.RingBuffer: same API, one scheduling gate in front
// of every call.  Used by the shimmed copy of actor/inbox.go, where a ring operation is one
// atomic step of the inbox protocol (the ring's own locking is checked in RingConc.tla).
package ring

import (
	"unsafe"

	"github.com/anthdm/hollywood/ringbuffer"
	"github.com/anthdm/hollywood/verifshim/sched"
)

type RingBuffer[T any] struct {
	rb *ringbuffer.RingBuffer[T]
}

func New[T any](size int64) *RingBuffer[T] {
	return &RingBuffer[T]{rb: ringbuffer.New[T](size)}
}

// Real gives the driver access to the wrapped ring (Len only is used).
func (r *RingBuffer[T]) Real() *ringbuffer.RingBuffer[T] { return r.rb }

func (r *RingBuffer[T]) Push(item T) {
	sched.Gate(sched.Op{Kind: "Push", Addr: uintptr(unsafe.Pointer(r)), Obj: item})
	r.rb.Push(item)
}

func (r *RingBuffer[T]) Len() int64 {
	sched.Gate(sched.Op{Kind: "Len", Addr: uintptr(unsafe.Pointer(r))})
	return r.rb.Len()
}

func (r *RingBuffer[T]) Pop() (T, bool) {
	sched.Gate(sched.Op{Kind: "Pop", Addr: uintptr(unsafe.Pointer(r))})
	return r.rb.Pop()
}

func (r *RingBuffer[T]) PopN(n int64) ([]T, bool) {
	sched.Gate(sched.Op{Kind: "PopN", Addr: uintptr(unsafe.Pointer(r)), A: n})
	return r.rb.PopN(n)
}
