// Package sync mirrors sync.Mutex / sync.RWMutex with scheduling gates; everything else is
// an alias of the standard library type.
package sync

import (
	rs "sync"
	"unsafe"

	"github.com/anthdm/hollywood/verifshim/sched"
)

type (
	WaitGroup = rs.WaitGroup
	Once      = rs.Once
	Map       = rs.Map
	Pool      = rs.Pool
	Cond      = rs.Cond
	Locker    = rs.Locker
)

func NewCond(l Locker) *Cond { return rs.NewCond(l) }

// Mutex: under control, Lock parks at a "Lock" gate and only proceeds when TryLock succeeds
// (a release while the mutex is held is a no-op step: the goroutine parks again).
type Mutex struct {
	mu   rs.Mutex
	held int32
}

// Held reports whether the mutex is currently held (driver side).
func (m *Mutex) Held() bool { return m.held != 0 }

func (m *Mutex) Lock() {
	if !sched.Controlled() {
		m.mu.Lock()
		m.held = 1
		return
	}
	for {
		sched.Gate(sched.Op{Kind: "Lock", Addr: uintptr(unsafe.Pointer(m)), Obj: m})
		if m.mu.TryLock() {
			m.held = 1
			return
		}
		if !sched.Controlled() {
			m.mu.Lock()
			m.held = 1
			return
		}
	}
}

func (m *Mutex) TryLock() bool {
	sched.Gate(sched.Op{Kind: "TryLock", Addr: uintptr(unsafe.Pointer(m)), Obj: m})
	if m.mu.TryLock() {
		m.held = 1
		return true
	}
	return false
}

func (m *Mutex) Unlock() {
	sched.Gate(sched.Op{Kind: "Unlock", Addr: uintptr(unsafe.Pointer(m)), Obj: m})
	m.held = 0
	m.mu.Unlock()
}

// RWMutex with writer/reader bookkeeping readable by the driver.
type RWMutex struct {
	mu      rs.RWMutex
	writer  int32
	readers int32
	bk      rs.Mutex
}

func (m *RWMutex) Writer() bool { m.bk.Lock(); defer m.bk.Unlock(); return m.writer != 0 }
func (m *RWMutex) Readers() int { m.bk.Lock(); defer m.bk.Unlock(); return int(m.readers) }

func (m *RWMutex) Lock() {
	if !sched.Controlled() {
		m.mu.Lock()
		m.bk.Lock()
		m.writer = 1
		m.bk.Unlock()
		return
	}
	for {
		sched.Gate(sched.Op{Kind: "Lock", Addr: uintptr(unsafe.Pointer(m)), Obj: m})
		if m.mu.TryLock() {
			m.bk.Lock()
			m.writer = 1
			m.bk.Unlock()
			return
		}
		if !sched.Controlled() {
			m.mu.Lock()
			m.bk.Lock()
			m.writer = 1
			m.bk.Unlock()
			return
		}
	}
}

func (m *RWMutex) Unlock() {
	sched.Gate(sched.Op{Kind: "Unlock", Addr: uintptr(unsafe.Pointer(m)), Obj: m})
	m.bk.Lock()
	m.writer = 0
	m.bk.Unlock()
	m.mu.Unlock()
}

func (m *RWMutex) RLock() {
	if !sched.Controlled() {
		m.mu.RLock()
		m.bk.Lock()
		m.readers++
		m.bk.Unlock()
		return
	}
	for {
		sched.Gate(sched.Op{Kind: "RLock", Addr: uintptr(unsafe.Pointer(m)), Obj: m})
		if m.mu.TryRLock() {
			m.bk.Lock()
			m.readers++
			m.bk.Unlock()
			return
		}
		if !sched.Controlled() {
			m.mu.RLock()
			m.bk.Lock()
			m.readers++
			m.bk.Unlock()
			return
		}
	}
}

func (m *RWMutex) RUnlock() {
	sched.Gate(sched.Op{Kind: "RUnlock", Addr: uintptr(unsafe.Pointer(m)), Obj: m})
	m.bk.Lock()
	m.readers--
	m.bk.Unlock()
	m.mu.RUnlock()
}

func (m *RWMutex) TryLock() bool {
	if m.mu.TryLock() {
		m.bk.Lock()
		m.writer = 1
		m.bk.Unlock()
		return true
	}
	return false
}

func (m *RWMutex) TryRLock() bool {
	if m.mu.TryRLock() {
		m.bk.Lock()
		m.readers++
		m.bk.Unlock()
		return true
	}
	return false
}
