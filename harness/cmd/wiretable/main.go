// wiretable runs the cases enumerated by TLC from specs/Wire.tla against the real wire code
// (B-table): streamWriter.Invoke -> Envelope -> MarshalVT -> UnmarshalVT -> streamReader.Receive
// -> Engine.SendLocal -> recording Processers.  Only API-visible results are compared with the
// expected deliveries TLC computed: order, target, type, payload, sender, error / no error, no panic.
package main

import (
	"bufio"
	"context"
	"encoding/json"
	"flag"
	"fmt"
	"log/slog"
	"os"
	"reflect"
	"strings"
	"sync"
	"time"

	"github.com/anthdm/hollywood/actor"
	"github.com/anthdm/hollywood/remote"
	"google.golang.org/protobuf/proto"
	"google.golang.org/protobuf/reflect/protodesc"
	"google.golang.org/protobuf/reflect/protoreflect"
	"google.golang.org/protobuf/reflect/protoregistry"
	"google.golang.org/protobuf/types/descriptorpb"
	"google.golang.org/protobuf/types/dynamicpb"
)

type PID struct {
	A string `json:"a"`
	I string `json:"i"`
}

type Elem struct {
	Target PID    `json:"target"`
	Sender PID    `json:"sender"`
	Type   string `json:"type"`
	Data   string `json:"data"`
	Ser    string `json:"ser"`
}

type Msg struct {
	Data string `json:"data"`
	Ti   int32  `json:"ti"`
	Si   int32  `json:"si"`
	Tni  int32  `json:"tni"`
}

type Delivery struct {
	Target PID    `json:"target"`
	Type   string `json:"type"`
	Data   string `json:"data"`
	Sender PID    `json:"sender"`
}

type Env struct {
	TypeNames []string `json:"typeNames"`
	Targets   []PID    `json:"targets"`
	Senders   []PID    `json:"senders"`
	Messages  []Msg    `json:"messages"`
}

type Case struct {
	Mode      string     `json:"mode"`
	Batch     []Elem     `json:"batch"`
	Envs      []Env      `json:"envs"` // hostile mode: the envelopes of one inbound stream
	Delivered []Delivery `json:"delivered"`
	Err       bool       `json:"err"`
}

type Outcome struct {
	Delivered []Delivery `json:"delivered"`
	Err       bool       `json:"err"`
	Panic     string     `json:"panic,omitempty"`
	Stage     string     `json:"stage,omitempty"`
	RespUsed  bool       `json:"-"`
	RespGot   string     `json:"-"` // type of the message the outstanding request's Result() returned ("" = none)
}

type Failure struct {
	Index int     `json:"index"`
	Case  Case    `json:"case"`
	Got   Outcome `json:"got"`
	What  string  `json:"what"`
}

var nilPID = PID{"nil", "nil"}

// intern: equal PIDs are the same *actor.PID object (as they are when a program keeps a PID around and sends to it
// repeatedly); otherwise every use gets its own object
var interned = map[PID]*actor.PID{}

func toPID(p PID, intern bool) *actor.PID {
	if p == nilPID {
		return nil
	}
	if !intern {
		return actor.NewPID(p.A, p.I)
	}
	if x, ok := interned[p]; ok {
		return x
	}
	x := actor.NewPID(p.A, p.I)
	interned[p] = x
	return x
}

func fromPID(p *actor.PID) PID {
	if p == nil {
		return nilPID
	}
	return PID{p.Address, p.ID}
}

var bigData = strings.Repeat("B", 600*1024) // two of these in one batch exceed a megabyte

func payload(typ, data string) any {
	if data == "big" {
		data = bigData
	}
	switch typ {
	case "remote.TestMessage":
		return &remote.TestMessage{Data: []byte(data)}
	case "actor.Ping":
		return &actor.Ping{From: &actor.PID{Address: data, ID: "x"}}
	case "actor.PID": // the one type the library itself registers with remote.RegisterType
		return &actor.PID{Address: data, ID: "payload"}
	case "verifdyn.Label", "verifdyn.Reading":
		// two message types defined at run time: different protobuf types behind one Go type (*dynamicpb.Message)
		m := dynamicpb.NewMessage(dynTypes[typ])
		m.Set(dynTypes[typ].Fields().ByNumber(1), protoreflect.ValueOfString(data))
		return m
	}
	panic("unknown model type " + typ)
}

var dynTypes = map[string]protoreflect.MessageDescriptor{}

func init() {
	str := descriptorpb.FieldDescriptorProto_TYPE_STRING
	opt := descriptorpb.FieldDescriptorProto_LABEL_OPTIONAL
	msg := func(name, field string) *descriptorpb.DescriptorProto {
		return &descriptorpb.DescriptorProto{Name: proto.String(name), Field: []*descriptorpb.FieldDescriptorProto{
			{Name: proto.String(field), Number: proto.Int32(1), Type: &str, Label: &opt, JsonName: proto.String(field)}}}
	}
	fdp := &descriptorpb.FileDescriptorProto{Name: proto.String("verifdyn.proto"), Package: proto.String("verifdyn"), Syntax: proto.String("proto3"),
		MessageType: []*descriptorpb.DescriptorProto{msg("Label", "text"), msg("Reading", "value")}}
	fd, err := protodesc.NewFile(fdp, protoregistry.GlobalFiles)
	if err != nil {
		panic(err)
	}
	if err := protoregistry.GlobalFiles.RegisterFile(fd); err != nil {
		panic(err)
	}
	for i := 0; i < fd.Messages().Len(); i++ {
		md := fd.Messages().Get(i)
		dynTypes[string(md.FullName())] = md
		if err := protoregistry.GlobalTypes.RegisterMessage(dynamicpb.NewMessageType(md)); err != nil {
			panic(err)
		}
	}
}

func encodeData(typ, data string) []byte {
	if data == "garbage" {
		return []byte{0xff, 0xff, 0xff}
	}
	t := typ
	if _, dyn := dynTypes[t]; !dyn && t != "remote.TestMessage" && t != "actor.Ping" && t != "actor.PID" {
		t = "remote.TestMessage"
	}
	b, err := proto.Marshal(payload(t, data).(proto.Message))
	if err != nil {
		panic(err)
	}
	return b
}

func describe(m any) (string, string) {
	switch x := m.(type) {
	case *remote.TestMessage:
		if len(x.Data) == 0 {
			return "remote.TestMessage", "empty"
		}
		return "remote.TestMessage", short(string(x.Data))
	case *actor.Ping:
		if x.From == nil {
			return "actor.Ping", "empty"
		}
		return "actor.Ping", short(x.From.Address)
	case *actor.PID:
		if x.Address == "" {
			return "actor.PID", "empty"
		}
		return "actor.PID", short(x.Address)
	case *dynamicpb.Message:
		name := string(x.Descriptor().FullName())
		v := x.Get(x.Descriptor().Fields().ByNumber(1)).String()
		if v == "" {
			return name, "empty"
		}
		return name, short(v)
	}
	return reflect.TypeOf(m).String(), "?"
}

func short(d string) string {
	if d == bigData {
		return "big"
	}
	return d
}

type recProc struct {
	pid  *actor.PID
	mu   *sync.Mutex
	log  *[]Delivery
	keep *[]any // the message objects handed over (a receiver may hold on to what it was given)
}

func (r *recProc) Start()                  {}
func (r *recProc) PID() *actor.PID         { return r.pid }
func (r *recProc) Invoke([]actor.Envelope) {}
func (r *recProc) Shutdown()               {}
func (r *recProc) Send(pid *actor.PID, msg any, sender *actor.PID) {
	t, d := describe(msg)
	r.mu.Lock()
	*r.log = append(*r.log, Delivery{Target: fromPID(pid), Type: t, Data: d, Sender: fromPID(sender)})
	if r.keep != nil {
		*r.keep = append(*r.keep, msg)
	}
	r.mu.Unlock()
}

type rig struct {
	e    *actor.Engine
	mu   sync.Mutex
	log  []Delivery
	keep []any
}

func newRig(ids []string) *rig {
	e, err := actor.NewEngine(actor.NewEngineConfig())
	if err != nil {
		panic(err)
	}
	r := &rig{e: e}
	for _, id := range ids {
		e.SpawnProc(&recProc{pid: actor.NewPID(e.Address(), id), mu: &r.mu, log: &r.log, keep: &r.keep})
	}
	// a real stream writer: inbound messages may be addressed to stream/<address> like to any other process
	rp := &recProc{mu: &r.mu, log: &r.log, keep: &r.keep}
	remote.VerifSpawnWriter(e, "127.0.0.1:1", rp.Send)
	return r
}

func (r *rig) take() []Delivery {
	r.mu.Lock()
	defer r.mu.Unlock()
	out := r.log
	// what was handed over must still be what it was: a later delivery must not change an earlier payload
	for i, m := range r.keep {
		if i < len(out) {
			if t, d := describe(m); t != out[i].Type || d != out[i].Data {
				out[i].Data = out[i].Data + " (changed to " + d + " by a later delivery)"
			}
		}
	}
	r.keep = nil
	r.log = nil
	if out == nil {
		out = []Delivery{}
	}
	return out
}

// through the real protobuf encoding, as on the wire
func reencode(env *remote.Envelope) (*remote.Envelope, error) {
	b, err := env.MarshalVT()
	if err != nil {
		return nil, err
	}
	out := &remote.Envelope{}
	if err := out.UnmarshalVT(b); err != nil {
		return nil, err
	}
	return out, nil
}

const respID = "response/live"

func (r *rig) run(c *Case, intern bool) Outcome {
	var envs []*remote.Envelope
	var resp *actor.Response
	if c.Mode == "roundtrip" {
		msgs := make([]remote.VerifMsg, len(c.Batch))
		for i, el := range c.Batch {
			var m any
			switch el.Ser {
			case "ok":
				m = payload(el.Type, el.Data)
			case "merr":
				m = &actor.Ping{From: &actor.PID{Address: "\xff\xfe", ID: "x"}} // invalid UTF-8: proto.Marshal fails
			default:
				m = "not a proto message"
			}
			msgs[i] = remote.VerifMsg{Target: toPID(el.Target, intern), Sender: toPID(el.Sender, intern), Msg: m}
		}
		sent, p := remote.VerifEncode(r.e, msgs)
		if p != nil {
			return Outcome{Delivered: r.take(), Panic: fmt.Sprint(p), Stage: "writer"}
		}
		envs = sent
	} else {
		for _, ce := range c.Envs {
			env := &remote.Envelope{TypeNames: ce.TypeNames}
			for _, t := range ce.Targets {
				if t.I == respID {
					// the response process of an outstanding request is registered like any other process and can be
					// addressed from the network; its owner collects the result a moment later
					if resp == nil {
						resp = r.e.Request(actor.NewPID(r.e.Address(), "nobody/0"), &actor.Ping{}, 300*time.Millisecond)
					}
					env.Targets = append(env.Targets, resp.PID())
					continue
				}
				env.Targets = append(env.Targets, toPID(t, false))
			}
			for _, s := range ce.Senders {
				env.Senders = append(env.Senders, toPID(s, false))
			}
			for _, m := range ce.Messages {
				tn := ""
				if m.Tni >= 0 && int(m.Tni) < len(ce.TypeNames) {
					tn = ce.TypeNames[m.Tni]
				}
				env.Messages = append(env.Messages, &remote.Message{Data: encodeData(tn, m.Data), TargetIndex: m.Ti, SenderIndex: m.Si, TypeNameIndex: m.Tni})
			}
			envs = append(envs, env)
		}
	}
	var wire []*remote.Envelope
	for _, env := range envs {
		w, err := reencode(env)
		if err != nil {
			return Outcome{Delivered: r.take(), Panic: "envelope does not survive MarshalVT/UnmarshalVT: " + err.Error(), Stage: "wire"}
		}
		wire = append(wire, w)
	}
	collected := make(chan string, 1)
	expectResp := false
	for _, d := range c.Delivered {
		expectResp = expectResp || d.Target.I == respID
	}
	if resp != nil && !expectResp {
		collected <- "" // nothing is due: the owner is still waiting when the stream ends
	} else if resp != nil {
		go func() {
			time.Sleep(3 * time.Millisecond)
			v, err := resp.Result()
			if err != nil {
				collected <- ""
				return
			}
			t, _ := describe(v)
			collected <- t
		}()
	}
	err, p := remote.VerifDecode(r.e, wire)
	out := Outcome{Delivered: r.take(), Err: err != nil}
	if resp != nil {
		out.RespGot = <-collected
		out.RespUsed = true
	}
	if p != nil {
		out.Panic = fmt.Sprint(p)
		out.Stage = "reader"
	}
	return out
}

func same(c *Case, got Outcome) string {
	if got.Panic != "" {
		return "panic in " + got.Stage + ": " + got.Panic
	}
	if got.Err != c.Err {
		return fmt.Sprintf("stream error = %v, expected %v", got.Err, c.Err)
	}
	if got.RespUsed {
		// deliveries to the response process are seen through Result(): the first one addressed to it
		var rest []Delivery
		first := ""
		for _, d := range c.Delivered {
			if d.Target.I == respID {
				if first == "" {
					first = d.Type
				}
				continue
			}
			rest = append(rest, d)
		}
		if got.RespGot != first {
			return fmt.Sprintf("the outstanding request's Result() returned a message of type %q, expected %q", got.RespGot, first)
		}
		c = &Case{Err: c.Err, Delivered: rest}
	}
	if len(got.Delivered) != len(c.Delivered) {
		return fmt.Sprintf("%d deliveries, expected %d", len(got.Delivered), len(c.Delivered))
	}
	for i := range got.Delivered {
		if got.Delivered[i] != c.Delivered[i] {
			return fmt.Sprintf("delivery %d is %+v, expected %+v", i, got.Delivered[i], c.Delivered[i])
		}
	}
	return ""
}

type quiet struct{}

func (quiet) Enabled(context.Context, slog.Level) bool  { return false }
func (quiet) Handle(context.Context, slog.Record) error { return nil }
func (quiet) WithAttrs([]slog.Attr) slog.Handler        { return quiet{} }
func (quiet) WithGroup(string) slog.Handler             { return quiet{} }

func main() {
	in := flag.String("cases", "", "ndjson file of cases exported by TLC")
	maxFail := flag.Int("max-failures", 20, "")
	progress := flag.String("progress", "", "file that receives the index of the case being run (to attribute a death of the process)")
	concurrent := flag.Int("concurrent", 0, "decode the cases on this many inbound streams at the same time (binary built with -race: the race detector is the oracle)")
	flag.Parse()
	slog.SetDefault(slog.New(quiet{})) // (a handler with a mutex would order the goroutines of the -concurrent mode)
	f, err := os.Open(*in)
	if err != nil {
		fmt.Fprintln(os.Stderr, err)
		os.Exit(2)
	}
	defer f.Close()
	if *concurrent > 0 {
		var cases []Case
		rd := bufio.NewReaderSize(f, 1<<20)
		for {
			line, err := rd.ReadBytes('\n')
			if len(line) > 1 {
				var c Case
				if e := json.Unmarshal(line, &c); e == nil {
					cases = append(cases, c)
				}
			}
			if err != nil {
				break
			}
		}
		var wg sync.WaitGroup
		for w := 0; w < *concurrent; w++ {
			wg.Add(1)
			go func(w int) {
				defer wg.Done()
				r := newRig([]string{"t/1", "z/1", "/1"})
				for i := range cases {
					c := cases[(i+w*7)%len(cases)]
					r.run(&c, false)
				}
			}(w)
		}
		wg.Wait()
		fmt.Printf("{\"cases\": %d, \"streams\": %d}\n", len(cases), *concurrent)
		return
	}
	r := newRig([]string{"t/1", "z/1", "/1"})
	rd := bufio.NewReaderSize(f, 1<<20)
	type report struct {
		Cases    int       `json:"cases"`
		Distinct int       `json:"distinct_inputs"`
		Failures []Failure `json:"failures"`
		NFail    int       `json:"nfail"`
		Samples  []Case    `json:"samples"`
	}
	rep := report{}
	n := 0
	for {
		line, err := rd.ReadBytes('\n')
		if len(line) > 1 {
			var c Case
			if e := json.Unmarshal(line, &c); e != nil {
				fmt.Fprintln(os.Stderr, "case:", e)
				os.Exit(2)
			}
			if c.Delivered == nil {
				c.Delivered = []Delivery{}
			}
			if *progress != "" {
				_ = os.WriteFile(*progress, []byte(fmt.Sprint(n)), 0o644)
			}
			got := r.run(&c, n%2 == 0)
			for _, d := range got.Delivered {
				if strings.HasPrefix(d.Target.I, "stream/") {
					time.Sleep(2 * time.Millisecond) // the writer handles it in its own goroutine: a panic there kills the process
					break
				}
			}
			if what := same(&c, got); what != "" {
				rep.NFail++
				if len(rep.Failures) < *maxFail {
					rep.Failures = append(rep.Failures, Failure{Index: n, Case: c, Got: got, What: what})
				}
			}
			if len(rep.Samples) < 3 && n%997 == 0 {
				rep.Samples = append(rep.Samples, c)
			}
			n++
		}
		if err != nil {
			break
		}
	}
	time.Sleep(20 * time.Millisecond)
	rep.Cases = n
	rep.Distinct = n
	json.NewEncoder(os.Stdout).Encode(rep)
	if rep.NFail > 0 {
		os.Exit(1)
	}
}
