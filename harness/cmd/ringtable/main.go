// ringtable drives the real ringbuffer.RingBuffer[int] along an edge cover of the TLC state
// graph of specs/RingBuffer.tla (B-table binding, property C14 sequential part).
// After every call the API-visible result is compared with `aret` of the target state --
// the result of the abstract FIFO queue, which TLC has shown equal to the model's `ret` --
// and Len() with Len(q).  Ring geometry is never looked at.
package main

import (
	"encoding/json"
	"flag"
	"fmt"
	"os"

	"github.com/anthdm/hollywood/ringbuffer"
	"verifharness/graph"
)

type state struct {
	Aret struct {
		Op string `json:"op"`
		N  int    `json:"n"`
		Ok bool   `json:"ok"`
		V  int    `json:"v"`
		Vs []int  `json:"vs"`
	} `json:"aret"`
	Q []int `json:"q"`
}

type failure struct {
	Cap0 int      `json:"cap0"`
	Ops  []string `json:"ops"`
	Step int      `json:"step"`
	Want string   `json:"want"`
	Got  string   `json:"got"`
}

type report struct {
	Runs         int        `json:"runs"`
	Steps        int        `json:"steps"`
	EdgesTotal   int        `json:"edges_total"`
	EdgesCovered int        `json:"edges_covered"`
	Nodes        int        `json:"nodes"`
	Failures     []failure  `json:"failures"`
	Samples      [][]string `json:"samples"`
}

func opString(e graph.Edge) string {
	if len(e.Args) > 0 {
		return fmt.Sprintf("%s(%s)", e.Act, string(e.Args[0]))
	}
	return e.Act
}

func main() {
	gpath := flag.String("graph", "", "graph json")
	cap0 := flag.Int("cap", 1, "initial capacity")
	seed := flag.Int64("seed", 1, "seed")
	maxRuns := flag.Int("maxruns", 0, "max runs")
	replay := flag.String("replay", "", "replay file (failure json)")
	flag.Parse()

	if *replay != "" {
		os.Exit(doReplay(*replay))
	}
	g, err := graph.Load(*gpath)
	if err != nil {
		fmt.Fprintln(os.Stderr, err)
		os.Exit(2)
	}
	states := map[string]*state{}
	for id, raw := range g.Nodes {
		var s state
		if err := json.Unmarshal(raw, &s); err != nil {
			fmt.Fprintln(os.Stderr, "state:", err)
			os.Exit(2)
		}
		states[id] = &s
	}
	rep := report{Nodes: len(g.Nodes)}
	rep.EdgesCovered, rep.EdgesTotal = g.Cover(*seed, *maxRuns, 0, func(path []int) bool {
		rep.Runs++
		ops := make([]string, 0, len(path))
		exp := make([]*state, 0, len(path))
		for _, ei := range path {
			ops = append(ops, opString(g.Edges[ei]))
			exp = append(exp, states[g.Edges[ei].Dst])
		}
		if len(rep.Samples) < 3 {
			rep.Samples = append(rep.Samples, ops)
		}
		step, want, got := execute(*cap0, g, path, exp)
		rep.Steps += len(path)
		if step >= 0 {
			rep.Failures = append(rep.Failures, failure{Cap0: *cap0, Ops: ops[:step+1], Step: step, Want: want, Got: got})
			return len(rep.Failures) < 5
		}
		return true
	})
	_ = json.NewEncoder(os.Stdout).Encode(rep)
}

// execute runs the ops on a fresh ring; returns the first failing step or -1.
func execute(cap0 int, g *graph.Graph, path []int, exp []*state) (step int, want, got string) {
	step = -1
	cur := 0
	defer func() {
		if r := recover(); r != nil {
			step, want, got = cur, "a result", fmt.Sprintf("panic: %v", r)
		}
	}()
	rb := ringbuffer.New[int](int64(cap0))
	var held [][]int
	var snap []string
	for i, ei := range path {
		cur = i
		e := g.Edges[ei]
		w, gt, h := apply(rb, e.Act, argInt(e), exp[i])
		if w != gt {
			return i, w, gt
		}
		for k := range held {
			if fmt.Sprint(held[k]) != snap[k] {
				return i, "batch returned by an earlier PopN stays " + snap[k], fmt.Sprint("it became ", held[k])
			}
		}
		if len(h) > 0 {
			held = append(held, h)
			snap = append(snap, fmt.Sprint(h))
		}
	}
	return -1, "", ""
}

func argInt(e graph.Edge) int {
	if len(e.Args) == 0 {
		return 0
	}
	var n int
	_ = json.Unmarshal(e.Args[0], &n)
	return n
}

// held: the slice PopN returned (the caller owns it from now on; later ring operations must not change it)
func apply(rb *ringbuffer.RingBuffer[int], act string, arg int, s *state) (want, got string, held []int) {
	switch act {
	case "Push":
		rb.Push(arg)
		want, got = "ok", "ok"
	case "LenOp":
		want = fmt.Sprint("Len=", s.Aret.N)
		got = fmt.Sprint("Len=", rb.Len())
	case "Pop":
		v, ok := rb.Pop()
		want = fmt.Sprint("Pop=", s.Aret.V, s.Aret.Ok)
		got = fmt.Sprint("Pop=", v, ok)
	case "PopN":
		vs, ok := rb.PopN(int64(arg))
		if vs == nil {
			vs = []int{}
		}
		w := s.Aret.Vs
		if w == nil {
			w = []int{}
		}
		want = fmt.Sprint("PopN=", w, s.Aret.Ok)
		got = fmt.Sprint("PopN=", vs, ok)
		held = vs
	default:
		return "known action", act, nil
	}
	if want == got {
		// Len must equal pushes minus pops after every call
		want = fmt.Sprint("Len=", len(s.Q))
		got = fmt.Sprint("Len=", rb.Len())
	}
	return
}

func doReplay(path string) int {
	b, err := os.ReadFile(path)
	if err != nil {
		fmt.Fprintln(os.Stderr, err)
		return 2
	}
	var f failure
	if err := json.Unmarshal(b, &f); err != nil {
		fmt.Fprintln(os.Stderr, err)
		return 2
	}
	// replay against an in-harness abstract queue derived from the ops themselves
	var q []int
	var held [][]int
	var snap []string
	rb := ringbuffer.New[int](int64(f.Cap0))
	bad := func() (r bool) {
		defer func() {
			if recover() != nil {
				r = true
			}
		}()
		for _, op := range f.Ops {
			var name string
			var arg int
			if n, _ := fmt.Sscanf(op, "Push(%d)", &arg); n == 1 {
				name = "Push"
			} else if n, _ := fmt.Sscanf(op, "PopN(%d)", &arg); n == 1 {
				name = "PopN"
			} else {
				name = op
			}
			switch name {
			case "Push":
				rb.Push(arg)
				q = append(q, arg)
			case "Pop":
				v, ok := rb.Pop()
				if ok != (len(q) > 0) || (ok && v != q[0]) {
					return true
				}
				if ok {
					q = q[1:]
				}
			case "PopN":
				vs, ok := rb.PopN(int64(arg))
				k := arg
				if k > len(q) {
					k = len(q)
				}
				if ok != (len(q) > 0) || len(vs) != k {
					return true
				}
				for i := range vs {
					if vs[i] != q[i] {
						return true
					}
				}
				q = q[k:]
				if len(vs) > 0 {
					held = append(held, vs)
					snap = append(snap, fmt.Sprint(vs))
				}
			}
			if int(rb.Len()) != len(q) {
				return true
			}
			for k := range held {
				if fmt.Sprint(held[k]) != snap[k] {
					return true
				}
			}
		}
		return false
	}()
	if bad {
		fmt.Println("REPRODUCED")
		return 1
	}
	fmt.Println("NOT-REPRODUCED")
	return 0
}
