// reqscen replays the request/response histories enumerated by TLC from specs/ReqResp.tla on a
// real engine (B-scenario): Request, replies of the responder (before Result, while Result waits,
// after Result returned), Result returning a reply or timing out.  Outcomes, dead letters for late
// replies, unregistration of the response PID and the elapsed time of a timeout are compared with
// what TLC computed.  Only the public API is used.
package main

import (
	"bufio"
	"encoding/json"
	"flag"
	"fmt"
	"io"
	"log/slog"
	"os"
	"strings"
	"sync"
	"time"

	"github.com/anthdm/hollywood/actor"
)

type Op struct {
	Op  string `json:"op"`
	R   int    `json:"r"`
	Ret []int  `json:"ret"` // the Result() calls that return because of this operation
	Blk bool   `json:"blk"` // reply: it blocks the responder (channel full); result: a blocked reply gets through
}

type Case struct {
	Hist       []Op    `json:"hist"`
	Outcome    [][]int `json:"outcome"` // per request: [r,k] | [-1,-1] timeout | [0,0] none
	Dead       [][]int `json:"dead"`
	Blocked    []int   `json:"blocked"`
	Registered []bool  `json:"registered"`
	Waiting    []bool  `json:"waiting"`
}

type Seen struct {
	Outcome    [][]int `json:"outcome"`
	Dead       [][]int `json:"dead"`
	Blocked    []int   `json:"blocked"`
	Registered []bool  `json:"registered"`
	ElapsedMs  []int64 `json:"elapsed_ms"`
	Zero       []bool  `json:"-"` // issued with a timeout of zero
}

type Failure struct {
	Index int    `json:"index"`
	What  string `json:"what"`
	Case  Case   `json:"case"`
	Seen  Seen   `json:"seen"`
}

type request struct{ R int }
type reply struct{ R, K int }
type syncMsg struct{}
type cmdReply struct {
	R, K int
	ack  chan struct{}
}

var timeout = 250 * time.Millisecond

// stale: the run fell behind real time (a Result() call had been waiting for more than half its timeout when the next
// operation was due): it is not a run of the behaviour any more and is repeated
const stale = "STALE"

type result struct {
	val     any
	err     error
	elapsed time.Duration
}

func runCase(c *Case) (Seen, string) {
	n := len(c.Outcome)
	e, err := actor.NewEngine(actor.NewEngineConfig())
	if err != nil {
		panic(err)
	}
	var mu sync.Mutex
	seen := Seen{Outcome: make([][]int, n), Dead: [][]int{}, Blocked: []int{0, 0}, Registered: make([]bool, n), ElapsedMs: make([]int64, n), Zero: make([]bool, n)}
	for i := range seen.Outcome {
		seen.Outcome[i] = []int{0, 0}
	}
	mon := e.SpawnFunc(func(c *actor.Context) {
		if _, ok := c.Message().(syncMsg); ok {
			c.Respond(syncMsg{})
		}
		if d, ok := c.Message().(actor.DeadLetterEvent); ok {
			if rp, ok := d.Message.(reply); ok && d.Target != nil && strings.HasPrefix(d.Target.ID, "response/") {
				mu.Lock()
				seen.Dead = append(seen.Dead, []int{rp.R, rp.K})
				mu.Unlock()
			}
		}
	}, "mon", actor.WithID("m"))
	e.Subscribe(mon)
	senders := map[int]*actor.PID{}
	responder := e.SpawnFunc(func(c *actor.Context) {
		switch m := c.Message().(type) {
		case request:
			senders[m.R] = c.Sender()
		case cmdReply:
			c.Engine().Send(senders[m.R], reply{m.R, m.K}) // what Context.Respond does for the message in hand
			close(m.ack)
		}
	}, "responder", actor.WithID("1"))
	resp := make([]*actor.Response, n+1)
	done := make([]chan result, n+1)
	nrep := make([]int, n+1)
	var stuck chan struct{}
	tstart := map[int]time.Time{} // Result() calls the behaviour has waiting
	zero := map[int]bool{}
	for _, op := range c.Hist {
		if op.Op != "timeout" {
			for _, t0 := range tstart {
				if time.Since(t0) > timeout/2 {
					return seen, stale
				}
			}
		}
		switch op.Op {
		case "req":
			resp[op.R] = e.Request(responder, request{op.R}, timeout)
		case "req0":
			// a request whose time budget is used up already
			resp[op.R] = e.Request(responder, request{op.R}, 0)
			zero[op.R] = true
			seen.Zero[op.R-1] = true
		case "reply":
			nrep[op.R]++
			ack := make(chan struct{})
			e.Send(responder, cmdReply{op.R, nrep[op.R], ack})
			if op.Blk {
				stuck = ack // the model says Response.Send blocks here (channel of capacity 1 is full): do not wait
			} else {
				select {
				case <-ack:
				case <-time.After(3 * time.Second):
					return seen, fmt.Sprintf("the responder's reply %d to request %d does not return", nrep[op.R], op.R)
				}
			}
		case "result":
			r := op.R
			done[r] = make(chan result, 1)
			go func() {
				t0 := time.Now()
				v, err := resp[r].Result()
				done[r] <- result{v, err, time.Since(t0)}
			}()
			// a buffered reply is returned at once
			select {
			case res := <-done[r]:
				done[r] <- res
			case <-time.After(3 * time.Millisecond):
			}
			tstart[r] = time.Now()
			if op.Blk && stuck != nil {
				select {
				case <-stuck:
					stuck = nil
				case <-time.After(3 * time.Second):
					return seen, "the responder stays blocked in its reply although Result() has consumed the first one"
				}
			}
		case "timeout":
		case "elapse":
			// more than the timeout passes between the requests and their collection; the replies are in already
			time.Sleep(timeout + timeout/2)
		}
		// the operation itself may have taken long on a busy machine: a Result() call that was waiting must still have
		// been well inside its timeout when the operation was through
		if op.Op != "timeout" && op.Op != "elapse" {
			for _, t0 := range tstart {
				if time.Since(t0) > timeout*3/5 {
					return seen, stale
				}
			}
		}
		// "once Result() has returned": the calls this operation completes have returned (and unregistered their
		// PID) before the next operation is issued
		for _, r := range op.Ret {
			delete(tstart, r)
			if done[r] == nil {
				return seen, fmt.Sprintf("harness: history completes Result() of request %d before it was called", r)
			}
			select {
			case res := <-done[r]:
				done[r] <- res
			case <-time.After(timeout + 2*time.Second):
				return seen, fmt.Sprintf("Result() of request %d has not returned although %s", r, map[bool]string{true: "its timeout has long passed", false: "a reply was sent to it"}[op.Op == "timeout"])
			}
		}
	}
	// collect what has returned by now (a Result the history leaves waiting is not waited for)
	for r := 1; r <= n; r++ {
		if done[r] == nil {
			continue
		}
		want := c.Outcome[r-1]
		if want[0] == 0 {
			continue
		}
		select {
		case res := <-done[r]:
			seen.ElapsedMs[r-1] = res.elapsed.Milliseconds()
			if res.err != nil {
				seen.Outcome[r-1] = []int{-1, -1}
			} else if rp, ok := res.val.(reply); ok {
				seen.Outcome[r-1] = []int{rp.R, rp.K}
			} else {
				seen.Outcome[r-1] = []int{-2, -2}
			}
		case <-time.After(2 * time.Second):
			return seen, fmt.Sprintf("Result() of request %d does not return although a reply was sent", r)
		}
	}
	// barrier through the event stream, so that every dead letter has reached the monitor
	bar := make(chan struct{})
	b := e.SpawnFunc(func(c *actor.Context) {
		if d, ok := c.Message().(actor.DeadLetterEvent); ok && d.Target != nil && d.Target.ID == "nobody/x" {
			close(bar)
		}
	}, "bar", actor.WithID("b"))
	e.Subscribe(b)
	e.Send(actor.NewPID(e.Address(), "nobody/x"), "flush")
	select {
	case <-bar:
	case <-time.After(2 * time.Second):
		return seen, "harness: event stream barrier did not come through"
	}
	// ... and the monitor has handled everything forwarded to it before the barrier event
	if _, err := e.Request(mon, syncMsg{}, 2*time.Second).Result(); err != nil {
		return seen, "harness: monitor does not answer"
	}
	for r := 1; r <= n; r++ {
		if resp[r] != nil {
			id := strings.TrimPrefix(resp[r].PID().ID, "response/")
			seen.Registered[r-1] = e.Registry.GetPID("response", id) != nil
		}
	}
	mu.Lock()
	defer mu.Unlock()
	return seen, ""
}

func eq(a, b []int) bool { return len(a) == len(b) && (len(a) == 0 || (a[0] == b[0] && a[1] == b[1])) }

func judge(c *Case, s Seen, problem string) string {
	if problem != "" {
		return problem
	}
	for i := range c.Outcome {
		r := i + 1
		if !eq(c.Outcome[i], s.Outcome[i]) {
			return fmt.Sprintf("Result() of request %d returned %v, expected %v ([r,k] = k-th reply to request r, [-1,-1] = timeout, [0,0] = not returned)", r, s.Outcome[i], c.Outcome[i])
		}
		if c.Outcome[i][0] == -1 && !s.Zero[i] && s.ElapsedMs[i] < timeout.Milliseconds()-1 {
			return fmt.Sprintf("Result() of request %d reported a timeout after %d ms, before the timeout of %d ms had passed", r, s.ElapsedMs[i], timeout.Milliseconds())
		}
		if c.Outcome[i][0] != 0 && s.Registered[i] != c.Registered[i] {
			return fmt.Sprintf("after Result() of request %d returned, its response PID registered = %v, expected %v", r, s.Registered[i], c.Registered[i])
		}
	}
	if len(c.Dead) != len(s.Dead) {
		return fmt.Sprintf("dead letters for late replies: %v, expected %v", s.Dead, c.Dead)
	}
	for i := range c.Dead {
		if !eq(c.Dead[i], s.Dead[i]) {
			return fmt.Sprintf("dead letters for late replies: %v, expected %v", s.Dead, c.Dead)
		}
	}
	return ""
}

// stress: replies racing the deadline.  Either outcome is accepted for the racing request; what must hold whichever
// way it goes: a timeout is reported only after the timeout has passed, a returned reply answers that very request,
// and the response PID is unregistered afterwards.
func stress(n int, seed int64) (int, string) {
	e, err := actor.NewEngine(actor.NewEngineConfig())
	if err != nil {
		panic(err)
	}
	var mu sync.Mutex
	deadSeen := map[int]bool{}
	mon := e.SpawnFunc(func(c *actor.Context) {
		if _, ok := c.Message().(syncMsg); ok {
			c.Respond(syncMsg{})
		}
		if d, ok := c.Message().(actor.DeadLetterEvent); ok {
			if rp, ok := d.Message.(reply); ok {
				mu.Lock()
				deadSeen[rp.R] = true
				mu.Unlock()
			}
		}
	}, "mon", actor.WithID("m"))
	e.Subscribe(mon)
	T := 2 * time.Millisecond
	responder := e.SpawnFunc(func(c *actor.Context) {
		if m, ok := c.Message().(request); ok {
			sender := c.Sender()
			eng := c.Engine()
			// reply from a goroutine after a delay around the deadline (the actor itself stays responsive)
			d := T + time.Duration((int64(m.R)*7919+seed*104729)%600-300)*time.Microsecond
			go func() {
				time.Sleep(d)
				eng.Send(sender, reply{m.R, 1})
			}()
		}
	}, "responder", actor.WithID("1"))
	timedOut := []int{}
	for i := 1; i <= n; i++ {
		resp := e.Request(responder, request{i}, T)
		t0 := time.Now()
		v, err := resp.Result()
		el := time.Since(t0)
		if err != nil {
			if el < T {
				return i, fmt.Sprintf("Result() of request %d reported a timeout after %v, before its timeout of %v had passed", i, el, T)
			}
			timedOut = append(timedOut, i)
		} else if rp, ok := v.(reply); !ok || rp.R != i {
			return i, fmt.Sprintf("Result() of request %d returned %v: not the reply to that request", i, v)
		}
		id := strings.TrimPrefix(resp.PID().ID, "response/")
		if e.Registry.GetPID("response", id) != nil {
			return i, fmt.Sprintf("after Result() of request %d returned its response PID is still registered", i)
		}
	}
	time.Sleep(3 * T)
	bar := make(chan struct{})
	b := e.SpawnFunc(func(c *actor.Context) {
		if d, ok := c.Message().(actor.DeadLetterEvent); ok && d.Target != nil && d.Target.ID == "nobody/x" {
			close(bar)
		}
	}, "bar", actor.WithID("b"))
	e.Subscribe(b)
	e.Send(actor.NewPID(e.Address(), "nobody/x"), "flush")
	<-bar
	_, _ = e.Request(mon, syncMsg{}, 2*time.Second).Result()
	mu.Lock()
	defer mu.Unlock()
	// (a reply that lost the race may still have slipped into the channel while Result() was on its way out: whether
	// it becomes a dead letter is decided only in the scenarios, where the reply is sent after Result() returned)
	_ = timedOut
	return n, ""
}

// crowd: rounds of k requesters released together, each asking one of two echo actors and collecting at once.  Judged
// by the clauses of ReqResp.tla that every history must satisfy: the reply returned answers that very request
// (C11_Correlated), nobody times out although its target answers at once, the response PID is gone afterwards
// (C11_Unregistered).
func crowd(rounds, k int) (int, string) {
	e, err := actor.NewEngine(actor.NewEngineConfig())
	if err != nil {
		panic(err)
	}
	echo := func(c *actor.Context) {
		if m, ok := c.Message().(request); ok {
			c.Respond(reply{m.R, 1})
		}
	}
	targets := []*actor.PID{e.SpawnFunc(echo, "echo", actor.WithID("1")), e.SpawnFunc(echo, "echo", actor.WithID("2"))}
	total := 0
	for round := 0; round < rounds; round++ {
		start := make(chan struct{})
		problems := make(chan string, k)
		var wg sync.WaitGroup
		for j := 0; j < k; j++ {
			id := round*k + j + 1
			wg.Add(1)
			go func() {
				defer wg.Done()
				<-start
				resp := e.Request(targets[id%2], request{id}, 5*time.Second)
				v, err := resp.Result()
				switch {
				case err != nil:
					problems <- fmt.Sprintf("Result() of request %d timed out although its target answers at once (%d concurrent requesters)", id, k)
				default:
					if rp, ok := v.(reply); !ok || rp.R != id {
						problems <- fmt.Sprintf("Result() of request %d returned %v: the reply to another request (%d concurrent requesters)", id, v, k)
					}
				}
				pid := strings.TrimPrefix(resp.PID().ID, "response/")
				if e.Registry.GetPID("response", pid) != nil {
					problems <- fmt.Sprintf("after Result() of request %d returned its response PID is still registered (%d concurrent requesters)", id, k)
				}
			}()
		}
		close(start)
		wg.Wait()
		total += k
		select {
		case p := <-problems:
			return total, p
		default:
		}
	}
	return total, ""
}

func main() {
	crowdN := flag.Int("crowd", 0, "run this many rounds of concurrent requesters instead of cases")
	crowdK := flag.Int("crowd-k", 16, "requesters per round")
	in := flag.String("cases", "", "ndjson file of cases exported by TLC")
	stressN := flag.Int("stress", 0, "run the deadline-race stress with this many requests instead of cases")
	seed := flag.Int64("seed", 1, "")
	workers := flag.Int("workers", 8, "")
	maxFail := flag.Int("max-failures", 20, "")
	flag.Parse()
	slog.SetDefault(slog.New(slog.NewTextHandler(io.Discard, nil)))
	if *crowdN > 0 {
		n, what := crowd(*crowdN, *crowdK)
		json.NewEncoder(os.Stdout).Encode(map[string]any{"requests": n, "what": what})
		if what != "" {
			os.Exit(1)
		}
		return
	}
	if *stressN > 0 {
		n, what := stress(*stressN, *seed)
		json.NewEncoder(os.Stdout).Encode(map[string]any{"requests": n, "what": what})
		if what != "" {
			os.Exit(1)
		}
		return
	}
	f, err := os.Open(*in)
	if err != nil {
		fmt.Fprintln(os.Stderr, err)
		os.Exit(2)
	}
	defer f.Close()
	var cases []Case
	rd := bufio.NewReaderSize(f, 1<<20)
	for {
		line, err := rd.ReadBytes('\n')
		if len(line) > 1 {
			var c Case
			if e := json.Unmarshal(line, &c); e != nil {
				fmt.Fprintln(os.Stderr, "case:", e)
				os.Exit(2)
			}
			cases = append(cases, c)
		}
		if err != nil {
			break
		}
	}
	type report struct {
		Cases    int       `json:"cases"`
		Ops      int       `json:"ops"`
		Failures []Failure `json:"failures"`
		NFail    int       `json:"nfail"`
		Samples  []Case    `json:"samples"`
	}
	rep := report{Cases: len(cases)}
	var mu sync.Mutex
	var wg sync.WaitGroup
	idx := make(chan int)
	for w := 0; w < *workers; w++ {
		wg.Add(1)
		go func() {
			defer wg.Done()
			for i := range idx {
				c := &cases[i]
				seen, problem := runCase(c)
				for try := 0; problem == stale && try < 8; try++ {
					seen, problem = runCase(c)
				}
				if problem == stale {
					problem = "harness: the machine is too slow to run this behaviour in real time (8 attempts)"
				}
				what := judge(c, seen, problem)
				mu.Lock()
				rep.Ops += len(c.Hist)
				if what != "" {
					rep.NFail++
					if len(rep.Failures) < *maxFail {
						rep.Failures = append(rep.Failures, Failure{Index: i, What: what, Case: *c, Seen: seen})
					}
				}
				mu.Unlock()
			}
		}()
	}
	for i := range cases {
		mu.Lock()
		stop := rep.NFail >= *maxFail
		mu.Unlock()
		if stop {
			break
		}
		idx <- i
	}
	close(idx)
	wg.Wait()
	for i := 0; i < len(cases) && len(rep.Samples) < 3; i += 1 + len(cases)/3 {
		rep.Samples = append(rep.Samples, cases[i])
	}
	json.NewEncoder(os.Stdout).Encode(rep)
	if rep.NFail > 0 {
		os.Exit(1)
	}
}
