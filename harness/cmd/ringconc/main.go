// ringconc binds specs/RingConc.tla to the real ringbuffer.RingBuffer under concurrent callers
// (B-graph).  Build with an overlay that replaces ringbuffer/ringbuffer.go by its shimmed copy
// (the mutex and the atomic length counter pass scheduling gates).
//
// Mode 1 (follow): every edge of the TLC state graph is driven through the real code: the thread
// the edge names is released for exactly one mutex / atomic operation and the projection of the
// real state (who holds the mutex, the length counter, every thread's parked operation, the
// results of the calls completed so far) is compared with the target node.
// Mode 2 (explore): after a disagreement every gate schedule of the real code is enumerated and
// judged by the oracle only: when all calls have returned, the vector of results and the final
// Len() must be one of the outcomes TLC found for the specification (the linearizable outcomes).
package main

import (
	"encoding/json"
	"flag"
	"fmt"
	"os"
	"sort"
	"strings"
	"sync"
	"time"

	"github.com/anthdm/hollywood/ringbuffer"
	"github.com/anthdm/hollywood/verifshim/sched"
	"verifharness/graph"
)

type call struct {
	Op string `json:"op"`
	V  int    `json:"v"`
}

type result struct {
	K  string `json:"k"`
	V  int    `json:"v"`
	Vs []int  `json:"vs"`
	Ok bool   `json:"ok"`
}

func (r result) String() string {
	switch r.K {
	case "push":
		return fmt.Sprintf("Push(%d)", r.V)
	case "len":
		return fmt.Sprintf("Len=%d", r.V)
	case "pop":
		return fmt.Sprintf("Pop=%d,%v", r.V, r.Ok)
	}
	return fmt.Sprintf("PopN=%v,%v", r.Vs, r.Ok)
}

type config struct {
	Threads map[string][]call `json:"threads"`
	Cap     int               `json:"cap"`
}

type state struct {
	Len    int                 `json:"len"`
	Holder string              `json:"holder"`
	Pc     map[string]string   `json:"pc"`
	Res    map[string][]result `json:"res"`
	Q      []int               `json:"q"`
}

func key(holder string, n int, pc map[string]string, res map[string][]result) string {
	var sb strings.Builder
	fmt.Fprintf(&sb, "h=%s len=%d", holder, n)
	names := make([]string, 0, len(pc))
	for t := range pc {
		names = append(names, t)
	}
	sort.Strings(names)
	for _, t := range names {
		fmt.Fprintf(&sb, " %s:%s%v", t, pc[t], res[t])
	}
	return sb.String()
}

// withRest: a terminal outcome also says what is left in the queue (in order)
func withRest(out string, rest []int) string {
	if rest == nil {
		rest = []int{}
	}
	return out + fmt.Sprintf(" rest=%v", rest)
}

// drain: every thread is done; one more thread pops everything that is left (stepped to completion under the controller)
func (x *inst) drain() ([]int, error) {
	var rest []int
	g, err := x.c.Spawn("zz-drain", func() {
		for {
			vs, ok := x.rb.PopN(64)
			if !ok || len(vs) == 0 {
				return
			}
			rest = append(rest, vs...)
			if len(rest) > 1000 {
				return
			}
		}
	})
	if err != nil {
		return nil, err
	}
	for k := 0; !g.Done() && k < 10000; k++ {
		if !g.Parked() {
			return rest, fmt.Errorf("drain thread is not parked")
		}
		if _, err := x.c.Step(g); err != nil {
			return rest, err
		}
		if g.Panic != nil {
			return rest, fmt.Errorf("panic in drain: %v", g.Panic)
		}
	}
	return rest, nil
}

func outcome(n int, res map[string][]result) string {
	names := make([]string, 0, len(res))
	for t := range res {
		names = append(names, t)
	}
	sort.Strings(names)
	var sb strings.Builder
	fmt.Fprintf(&sb, "len=%d", n)
	for _, t := range names {
		fmt.Fprintf(&sb, " %s%v", t, res[t])
	}
	return sb.String()
}

type inst struct {
	cfg config
	c   *sched.Controller
	rb  *ringbuffer.RingBuffer[int]
	gs  map[string]*sched.G
	mu  sync.Mutex
	res map[string][]result
}

func newInst(cfg config) (*inst, error) {
	x := &inst{cfg: cfg, gs: map[string]*sched.G{}, res: map[string][]result{}}
	x.c = sched.NewController()
	x.c.Timeout = 10 * time.Second
	x.rb = ringbuffer.New[int](int64(cfg.Cap))
	for name, prog := range cfg.Threads {
		name, prog := name, prog
		x.res[name] = []result{}
		g, err := x.c.Spawn(name, func() {
			for _, cl := range prog {
				var r result
				switch cl.Op {
				case "Push":
					x.rb.Push(cl.V)
					r = result{K: "push", V: cl.V, Vs: []int{}, Ok: true}
				case "Pop":
					v, ok := x.rb.Pop()
					r = result{K: "pop", V: v, Vs: []int{}, Ok: ok}
				case "PopN":
					vs, ok := x.rb.PopN(int64(cl.V))
					if vs == nil {
						vs = []int{}
					}
					r = result{K: "popn", Vs: append([]int{}, vs...), Ok: ok}
				case "Len":
					r = result{K: "len", V: int(x.rb.Len()), Vs: []int{}, Ok: true}
				}
				x.mu.Lock()
				x.res[name] = append(x.res[name], r)
				x.mu.Unlock()
			}
		})
		if err != nil {
			return nil, err
		}
		x.gs[name] = g
	}
	return x, nil
}

func (x *inst) close() { x.c.Abort() }

func (x *inst) pc(g *sched.G) string {
	if g.Done() {
		return "done"
	}
	switch g.Op.Kind {
	case "Lock":
		return "lock"
	case "Unlock":
		return "unlock"
	case "Add64":
		return "add"
	case "Load64":
		return "load"
	}
	return "?" + g.Op.Kind
}

func (x *inst) project() (string, string, int, map[string][]result) {
	pcs := map[string]string{}
	holder := "none"
	for name, g := range x.gs {
		p := x.pc(g)
		pcs[name] = p
		if p == "add" || p == "unlock" {
			if holder != "none" {
				holder = "two:" + holder + "+" + name // two threads inside the critical section
			} else {
				holder = name
			}
		}
	}
	x.mu.Lock()
	res := map[string][]result{}
	for t, r := range x.res {
		res[t] = append([]result{}, r...)
	}
	x.mu.Unlock()
	n := int(x.rb.Len())
	return key(holder, n, pcs, res), outcome(n, res), n, res
}

func (x *inst) step(name string) error {
	g := x.gs[name]
	if g == nil || !g.Parked() {
		return fmt.Errorf("thread %q is not parked", name)
	}
	if _, err := x.c.Step(g); err != nil {
		return err
	}
	if g.Panic != nil {
		return fmt.Errorf("panic in %s: %v", name, g.Panic)
	}
	return nil
}

// enabled: parked threads whose next operation can make progress (a Lock on a held mutex cannot)
func (x *inst) enabled() []string {
	var out []string
	for name, g := range x.gs {
		if !g.Parked() {
			continue
		}
		if g.Op.Kind == "Lock" {
			if m, ok := g.Op.Obj.(interface{ Held() bool }); ok && m.Held() {
				continue
			}
		}
		out = append(out, name)
	}
	sort.Strings(out)
	return out
}

func (x *inst) allDone() bool {
	for _, g := range x.gs {
		if !g.Done() {
			return false
		}
	}
	return true
}

type divergence struct {
	Path []string `json:"path"`
	Want string   `json:"want"`
	Got  string   `json:"got"`
	Err  string   `json:"err,omitempty"`
}

type violation struct {
	What     string   `json:"what"`
	Schedule []string `json:"schedule"`
}

type report struct {
	Nodes        int          `json:"nodes"`
	EdgesTotal   int          `json:"edges_total"`
	EdgesCovered int          `json:"edges_covered"`
	Runs         int          `json:"runs"`
	Steps        int          `json:"steps"`
	Outcomes     int          `json:"model_outcomes"`
	Allowed      []string     `json:"allowed"`
	Divergences  []divergence `json:"divergences"`
	Explored     int          `json:"explored_schedules"`
	Complete     bool         `json:"explore_complete"`
	Violations   []violation  `json:"violations"`
	Samples      [][]string   `json:"samples"`
	Error        string       `json:"error,omitempty"`
}

func threadOf(e graph.Edge) string {
	var s string
	if len(e.Args) > 0 {
		_ = json.Unmarshal(e.Args[0], &s)
	}
	return s
}

func judge(x *inst, allowed map[string]bool) string {
	_, out, _, _ := x.project()
	rest, err := x.drain()
	if err != nil {
		return "draining the queue after the calls: " + err.Error()
	}
	out = withRest(out, rest)
	if !allowed[out] {
		return "the calls returned " + out + ": no sequential order of these calls on a FIFO queue gives these results (not one of the outcomes of the specification)"
	}
	return ""
}

func main() {
	gpath := flag.String("graph", "", "graph json")
	cfgs := flag.String("config", "", "instance config json")
	seed := flag.Int64("seed", 1, "seed")
	budget := flag.Duration("explore-budget", 60*time.Second, "time budget for mode 2")
	replay := flag.String("replay", "", "replay a violation file")
	flag.Parse()
	var cfg config
	if *replay == "" {
		if err := json.Unmarshal([]byte(*cfgs), &cfg); err != nil {
			fmt.Fprintln(os.Stderr, "config:", err)
			os.Exit(2)
		}
	}
	rep := &report{Complete: true}
	if *replay != "" {
		os.Exit(doReplay(*replay, nil))
	}
	g, err := graph.Load(*gpath)
	defer func() { _ = json.NewEncoder(os.Stdout).Encode(rep) }()
	if err != nil {
		rep.Error = err.Error()
		return
	}
	rep.Nodes = len(g.Nodes)
	want := map[string]string{}
	allowed := map[string]bool{}
	for id, raw := range g.Nodes {
		var s state
		if err := json.Unmarshal(raw, &s); err != nil {
			rep.Error = "state: " + err.Error()
			return
		}
		want[id] = key(s.Holder, s.Len, s.Pc, s.Res)
		if g.Terminal(id) {
			allowed[withRest(outcome(s.Len, s.Res), s.Q)] = true
		}
	}
	rep.Outcomes = len(allowed)
	for a := range allowed {
		rep.Allowed = append(rep.Allowed, a)
	}
	sort.Strings(rep.Allowed)
	rep.EdgesCovered, rep.EdgesTotal = g.Cover(*seed, 0, 0, func(path []int) bool {
		rep.Runs++
		x, err := newInst(cfg)
		if err != nil {
			rep.Error = err.Error()
			return false
		}
		defer x.close()
		names := []string{}
		if got, _, _, _ := x.project(); got != want[g.Init[0]] {
			rep.Divergences = append(rep.Divergences, divergence{names, want[g.Init[0]], got, ""})
			return false
		}
		for _, ei := range path {
			e := g.Edges[ei]
			th := threadOf(e)
			names = append(names, th+":"+e.Act)
			rep.Steps++
			if err := x.step(th); err != nil {
				got, _, _, _ := x.project()
				rep.Divergences = append(rep.Divergences, divergence{names, want[e.Dst], got, err.Error()})
				return false
			}
			if got, _, _, _ := x.project(); got != want[e.Dst] {
				rep.Divergences = append(rep.Divergences, divergence{names, want[e.Dst], got, ""})
				return false
			}
		}
		// a path that ends with every thread done: what is left in the queue must be what the specification has left
		if x.allDone() {
			if what := judge(x, allowed); what != "" {
				sch := make([]string, len(path))
				for k, ei := range path {
					sch[k] = threadOf(g.Edges[ei])
				}
				rep.Violations = append(rep.Violations, violation{what, sch})
			}
		}
		if len(rep.Samples) < 2 {
			rep.Samples = append(rep.Samples, names)
		}
		return true
	})
	if rep.Error != "" || len(rep.Divergences) == 0 {
		return
	}
	// mode 2: all gate schedules of the code, judged by the outcome oracle
	deadline := time.Now().Add(*budget)
	work := [][]string{{}}
	visited := map[string]bool{}
	for len(work) > 0 && len(rep.Violations) < 3 {
		if time.Now().After(deadline) {
			rep.Complete = false
			break
		}
		path := work[len(work)-1]
		work = work[:len(work)-1]
		x, err := newInst(cfg)
		if err != nil {
			rep.Error = err.Error()
			return
		}
		rep.Explored++
		cur := append([]string{}, path...)
		ok := true
		for _, th := range path {
			if err := x.step(th); err != nil {
				if strings.HasPrefix(err.Error(), "panic in ") {
					rep.Violations = append(rep.Violations, violation{err.Error(), append([]string{}, cur...)})
				} else {
					rep.Complete = false
				}
				ok = false
				break
			}
		}
		for ok {
			k, _, _, _ := x.project()
			if visited[k] {
				break
			}
			visited[k] = true
			en := x.enabled()
			if len(en) == 0 {
				if x.allDone() {
					if what := judge(x, allowed); what != "" {
						rep.Violations = append(rep.Violations, violation{what, append([]string{}, cur...)})
					}
				} else {
					rep.Violations = append(rep.Violations, violation{"the calls block each other for ever (every thread waits for the mutex)", append([]string{}, cur...)})
				}
				break
			}
			for _, th := range en[1:] {
				work = append(work, append(append([]string{}, cur...), th))
			}
			if err := x.step(en[0]); err != nil {
				cur = append(cur, en[0])
				if strings.HasPrefix(err.Error(), "panic in ") {
					rep.Violations = append(rep.Violations, violation{err.Error(), append([]string{}, cur...)})
				} else {
					rep.Complete = false
				}
				break
			}
			cur = append(cur, en[0])
		}
		x.close()
	}
}

type replayFile struct {
	Config   config   `json:"config"`
	Schedule []string `json:"schedule"`
	Allowed  []string `json:"allowed"`
}

func doReplay(path string, _ *graph.Graph) int {
	b, err := os.ReadFile(path)
	if err != nil {
		fmt.Fprintln(os.Stderr, err)
		return 2
	}
	var rf replayFile
	if err := json.Unmarshal(b, &rf); err != nil {
		fmt.Fprintln(os.Stderr, err)
		return 2
	}
	allowed := map[string]bool{}
	for _, a := range rf.Allowed {
		allowed[a] = true
	}
	x, err := newInst(rf.Config)
	if err != nil {
		fmt.Fprintln(os.Stderr, err)
		return 2
	}
	defer x.close()
	for _, th := range rf.Schedule {
		if err := x.step(th); err != nil {
			if strings.HasPrefix(err.Error(), "panic in ") {
				fmt.Println("REPRODUCED:", err)
				return 1
			}
			fmt.Println("NOT-REPRODUCED (harness):", err)
			return 0
		}
	}
	if !x.allDone() {
		if len(x.enabled()) == 0 {
			fmt.Println("REPRODUCED: calls block each other for ever")
			return 1
		}
		fmt.Println("NOT-REPRODUCED: schedule incomplete")
		return 0
	}
	if what := judge(x, allowed); what != "" {
		fmt.Println("REPRODUCED:", what)
		return 1
	}
	fmt.Println("NOT-REPRODUCED")
	return 0
}
