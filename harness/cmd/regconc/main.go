// regconc binds specs/Registry.tla to the real actor.Registry under concurrent callers (B-graph).
// Build with an overlay that replaces actor/registry.go by its shimmed copy (the RWMutex passes
// scheduling gates).  Threads call Engine.SpawnProc (-> Registry.add), Registry.Remove and
// Registry.GetPID on one engine; the spawned Processers count their Start() calls.
//
// Mode 1 (follow): every edge of the TLC state graph is driven through the real code and the
// projection of the real state (writer, readers, every thread's parked operation, results of the
// completed calls, Start() calls per id) is compared with the target node.
// Mode 2 (explore): after a disagreement every gate schedule of the real code is enumerated and
// judged by the oracle only: the outcome (results + Start() calls per id) must be one of the
// outcomes TLC found for the specification.
package main

import (
	"encoding/json"
	"flag"
	"fmt"
	"os"
	"sort"
	"strings"
	"sync"
	"time"

	"github.com/anthdm/hollywood/actor"
	"github.com/anthdm/hollywood/verifshim/sched"
	"verifharness/graph"
)

type call struct {
	Op string `json:"op"`
	ID string `json:"id"`
}

type config struct {
	Threads map[string][]call `json:"threads"`
}

type state struct {
	Writer  string `json:"writer"`
	Readers struct {
		Set []string `json:"#set"`
	} `json:"readers"`
	Pc     map[string]string   `json:"pc"`
	Res    map[string][]string `json:"res"`
	Starts map[string]int      `json:"starts"`
}

func key(writer string, readers []string, pc map[string]string, res map[string][]string, starts map[string]int) string {
	var sb strings.Builder
	rs := append([]string{}, readers...)
	sort.Strings(rs)
	fmt.Fprintf(&sb, "w=%s r=%v", writer, rs)
	names := make([]string, 0, len(pc))
	for t := range pc {
		names = append(names, t)
	}
	sort.Strings(names)
	for _, t := range names {
		fmt.Fprintf(&sb, " %s:%s%v", t, pc[t], res[t])
	}
	sb.WriteString(" " + outcomeStarts(starts))
	return sb.String()
}

func outcomeStarts(starts map[string]int) string {
	ids := make([]string, 0, len(starts))
	for i := range starts {
		ids = append(ids, i)
	}
	sort.Strings(ids)
	var sb strings.Builder
	sb.WriteString("starts{")
	for _, i := range ids {
		fmt.Fprintf(&sb, "%s:%d ", i, starts[i])
	}
	sb.WriteString("}")
	return sb.String()
}

func outcome(res map[string][]string, starts map[string]int) string {
	names := make([]string, 0, len(res))
	for t := range res {
		names = append(names, t)
	}
	sort.Strings(names)
	var sb strings.Builder
	for _, t := range names {
		fmt.Fprintf(&sb, "%s%v ", t, res[t])
	}
	sb.WriteString(outcomeStarts(starts))
	return sb.String()
}

type stub struct {
	pid *actor.PID
	x   *inst
}

func (p *stub) Start() {
	p.x.mu.Lock()
	p.x.starts[p.pid.ID]++
	p.x.mu.Unlock()
}
func (p *stub) PID() *actor.PID                  { return p.pid }
func (p *stub) Send(*actor.PID, any, *actor.PID) {}
func (p *stub) Invoke([]actor.Envelope)          {}
func (p *stub) Shutdown()                        {}

type inst struct {
	cfg    config
	c      *sched.Controller
	e      *actor.Engine
	gs     map[string]*sched.G
	mu     sync.Mutex
	res    map[string][]string
	starts map[string]int
	dups   int
}

func newInst(cfg config) (*inst, error) {
	x := &inst{cfg: cfg, gs: map[string]*sched.G{}, res: map[string][]string{}, starts: map[string]int{}}
	e, err := actor.NewEngine(actor.NewEngineConfig())
	if err != nil {
		return nil, err
	}
	x.e = e
	x.c = sched.NewController()
	x.c.Timeout = 10 * time.Second
	for _, prog := range cfg.Threads {
		for _, cl := range prog {
			x.starts["k/"+cl.ID] = 0
		}
	}
	for name, prog := range cfg.Threads {
		name, prog := name, prog
		x.res[name] = []string{}
		g, err := x.c.Spawn(name, func() {
			for _, cl := range prog {
				var r string
				switch cl.Op {
				case "add":
					before := 0
					x.mu.Lock()
					before = x.starts["k/"+cl.ID]
					x.mu.Unlock()
					p := &stub{pid: actor.NewPID(e.Address(), "k/"+cl.ID), x: x}
					var started bool
					p2 := &countingStub{stub: p, started: &started}
					e.SpawnProc(p2)
					_ = before
					if started {
						r = "started"
					} else {
						r = "dup"
					}
				case "remove":
					e.Registry.Remove(actor.NewPID(e.Address(), "k/"+cl.ID))
					r = "removed"
				case "get":
					if e.Registry.GetPID("k", cl.ID) != nil {
						r = "found"
					} else {
						r = "absent"
					}
				}
				x.mu.Lock()
				x.res[name] = append(x.res[name], r)
				x.mu.Unlock()
			}
		})
		if err != nil {
			return nil, err
		}
		x.gs[name] = g
	}
	return x, nil
}

type countingStub struct {
	*stub
	started *bool
}

func (c *countingStub) Start() { *c.started = true; c.stub.Start() }

func (x *inst) close() { x.c.Abort() }

func (x *inst) pc(name string, g *sched.G) string {
	if g.Done() {
		return "done"
	}
	x.mu.Lock()
	n := len(x.res[name])
	x.mu.Unlock()
	op := ""
	if n < len(x.cfg.Threads[name]) {
		op = x.cfg.Threads[name][n].Op
	}
	switch g.Op.Kind {
	case "Lock":
		return "lock"
	case "Unlock":
		return "unlock"
	case "RLock":
		if op == "get" {
			return "rlock"
		}
		return "evrlock"
	case "RUnlock":
		if op == "get" {
			return "runlock"
		}
		return "evrunlock"
	}
	return "?" + g.Op.Kind
}

func (x *inst) project() (string, string) {
	pcs := map[string]string{}
	writer := "none"
	readers := []string{}
	for name, g := range x.gs {
		p := x.pc(name, g)
		pcs[name] = p
		switch p {
		case "unlock":
			if writer != "none" {
				writer = "two:" + writer + "+" + name
			} else {
				writer = name
			}
		case "runlock", "evrunlock":
			readers = append(readers, name)
		}
	}
	x.mu.Lock()
	res := map[string][]string{}
	for t, r := range x.res {
		res[t] = append([]string{}, r...)
	}
	starts := map[string]int{}
	for i, n := range x.starts {
		starts[strings.TrimPrefix(i, "k/")] = n
	}
	x.mu.Unlock()
	return key(writer, readers, pcs, res, starts), outcome(res, starts)
}

func (x *inst) step(name string) error {
	g := x.gs[name]
	if g == nil || !g.Parked() {
		return fmt.Errorf("thread %q is not parked", name)
	}
	if _, err := x.c.Step(g); err != nil {
		return err
	}
	if g.Panic != nil {
		return fmt.Errorf("panic in %s: %v", name, g.Panic)
	}
	return nil
}

// enabled: parked threads whose next operation can make progress (a Lock on a held mutex cannot)
func (x *inst) enabled() []string {
	var out []string
	for name, g := range x.gs {
		if !g.Parked() {
			continue
		}
		if m, ok := g.Op.Obj.(interface {
			Writer() bool
			Readers() int
		}); ok {
			if g.Op.Kind == "Lock" && (m.Writer() || m.Readers() > 0) {
				continue
			}
			if g.Op.Kind == "RLock" && m.Writer() {
				continue
			}
		}
		out = append(out, name)
	}
	sort.Strings(out)
	return out
}

func (x *inst) allDone() bool {
	for _, g := range x.gs {
		if !g.Done() {
			return false
		}
	}
	return true
}

type divergence struct {
	Path []string `json:"path"`
	Want string   `json:"want"`
	Got  string   `json:"got"`
	Err  string   `json:"err,omitempty"`
}

type violation struct {
	What     string   `json:"what"`
	Schedule []string `json:"schedule"`
}

type report struct {
	Nodes        int          `json:"nodes"`
	EdgesTotal   int          `json:"edges_total"`
	EdgesCovered int          `json:"edges_covered"`
	Runs         int          `json:"runs"`
	Steps        int          `json:"steps"`
	Outcomes     int          `json:"model_outcomes"`
	Allowed      []string     `json:"allowed"`
	Divergences  []divergence `json:"divergences"`
	Explored     int          `json:"explored_schedules"`
	Complete     bool         `json:"explore_complete"`
	Violations   []violation  `json:"violations"`
	Samples      [][]string   `json:"samples"`
	Error        string       `json:"error,omitempty"`
}

func threadOf(e graph.Edge) string {
	var s string
	if len(e.Args) > 0 {
		_ = json.Unmarshal(e.Args[0], &s)
	}
	return s
}

func judge(x *inst, allowed map[string]bool) string {
	_, out := x.project()
	if !allowed[out] {
		return "outcome " + out + " is not one of the outcomes of the specification (for one id at most one more Start() than Remove; a duplicate starts nothing)"
	}
	return ""
}

func main() {
	gpath := flag.String("graph", "", "graph json")
	cfgs := flag.String("config", "", "instance config json")
	seed := flag.Int64("seed", 1, "seed")
	budget := flag.Duration("explore-budget", 60*time.Second, "time budget for mode 2")
	replay := flag.String("replay", "", "replay a violation file")
	flag.Parse()
	var cfg config
	if *replay == "" {
		if err := json.Unmarshal([]byte(*cfgs), &cfg); err != nil {
			fmt.Fprintln(os.Stderr, "config:", err)
			os.Exit(2)
		}
	}
	rep := &report{Complete: true}
	if *replay != "" {
		os.Exit(doReplay(*replay, nil))
	}
	g, err := graph.Load(*gpath)
	defer func() { _ = json.NewEncoder(os.Stdout).Encode(rep) }()
	if err != nil {
		rep.Error = err.Error()
		return
	}
	rep.Nodes = len(g.Nodes)
	want := map[string]string{}
	allowed := map[string]bool{}
	for id, raw := range g.Nodes {
		var s state
		if err := json.Unmarshal(raw, &s); err != nil {
			rep.Error = "state: " + err.Error()
			return
		}
		want[id] = key(s.Writer, s.Readers.Set, s.Pc, s.Res, s.Starts)
		if g.Terminal(id) {
			allowed[outcome(s.Res, s.Starts)] = true
		}
	}
	rep.Outcomes = len(allowed)
	for a := range allowed {
		rep.Allowed = append(rep.Allowed, a)
	}
	sort.Strings(rep.Allowed)
	rep.EdgesCovered, rep.EdgesTotal = g.Cover(*seed, 0, 0, func(path []int) bool {
		rep.Runs++
		x, err := newInst(cfg)
		if err != nil {
			rep.Error = err.Error()
			return false
		}
		defer x.close()
		names := []string{}
		if got, _ := x.project(); got != want[g.Init[0]] {
			rep.Divergences = append(rep.Divergences, divergence{names, want[g.Init[0]], got, ""})
			return false
		}
		for _, ei := range path {
			e := g.Edges[ei]
			th := threadOf(e)
			names = append(names, th+":"+e.Act)
			rep.Steps++
			if err := x.step(th); err != nil {
				got, _ := x.project()
				rep.Divergences = append(rep.Divergences, divergence{names, want[e.Dst], got, err.Error()})
				return false
			}
			if got, _ := x.project(); got != want[e.Dst] {
				rep.Divergences = append(rep.Divergences, divergence{names, want[e.Dst], got, ""})
				return false
			}
		}
		if len(rep.Samples) < 2 {
			rep.Samples = append(rep.Samples, names)
		}
		return true
	})
	if rep.Error != "" || len(rep.Divergences) == 0 {
		return
	}
	// mode 2: all gate schedules of the code, judged by the outcome oracle
	deadline := time.Now().Add(*budget)
	work := [][]string{{}}
	visited := map[string]bool{}
	for len(work) > 0 && len(rep.Violations) < 3 {
		if time.Now().After(deadline) {
			rep.Complete = false
			break
		}
		path := work[len(work)-1]
		work = work[:len(work)-1]
		x, err := newInst(cfg)
		if err != nil {
			rep.Error = err.Error()
			return
		}
		rep.Explored++
		cur := append([]string{}, path...)
		ok := true
		for _, th := range path {
			if err := x.step(th); err != nil {
				if strings.HasPrefix(err.Error(), "panic in ") {
					rep.Violations = append(rep.Violations, violation{err.Error(), append([]string{}, cur...)})
				} else {
					rep.Complete = false
				}
				ok = false
				break
			}
		}
		for ok {
			k, _ := x.project()
			if visited[k] {
				break
			}
			visited[k] = true
			en := x.enabled()
			if len(en) == 0 {
				if x.allDone() {
					if what := judge(x, allowed); what != "" {
						rep.Violations = append(rep.Violations, violation{what, append([]string{}, cur...)})
					}
				} else {
					rep.Violations = append(rep.Violations, violation{"the calls block each other for ever (every thread waits for the registry lock)", append([]string{}, cur...)})
				}
				break
			}
			for _, th := range en[1:] {
				work = append(work, append(append([]string{}, cur...), th))
			}
			if err := x.step(en[0]); err != nil {
				cur = append(cur, en[0])
				if strings.HasPrefix(err.Error(), "panic in ") {
					rep.Violations = append(rep.Violations, violation{err.Error(), append([]string{}, cur...)})
				} else {
					rep.Complete = false
				}
				break
			}
			cur = append(cur, en[0])
		}
		x.close()
	}
}

type replayFile struct {
	Config   config   `json:"config"`
	Schedule []string `json:"schedule"`
	Allowed  []string `json:"allowed"`
}

func doReplay(path string, _ *graph.Graph) int {
	b, err := os.ReadFile(path)
	if err != nil {
		fmt.Fprintln(os.Stderr, err)
		return 2
	}
	var rf replayFile
	if err := json.Unmarshal(b, &rf); err != nil {
		fmt.Fprintln(os.Stderr, err)
		return 2
	}
	allowed := map[string]bool{}
	for _, a := range rf.Allowed {
		allowed[a] = true
	}
	x, err := newInst(rf.Config)
	if err != nil {
		fmt.Fprintln(os.Stderr, err)
		return 2
	}
	defer x.close()
	for _, th := range rf.Schedule {
		if err := x.step(th); err != nil {
			if strings.HasPrefix(err.Error(), "panic in ") {
				fmt.Println("REPRODUCED:", err)
				return 1
			}
			fmt.Println("NOT-REPRODUCED (harness):", err)
			return 0
		}
	}
	if !x.allDone() {
		if len(x.enabled()) == 0 {
			fmt.Println("REPRODUCED: calls block each other for ever")
			return 1
		}
		fmt.Println("NOT-REPRODUCED: schedule incomplete")
		return 0
	}
	if what := judge(x, allowed); what != "" {
		fmt.Println("REPRODUCED:", what)
		return 1
	}
	fmt.Println("NOT-REPRODUCED")
	return 0
}
