// stopconc binds specs/StopWait.tla to the real stop-waiter protocol of actor/process.go (process.onStopped,
// process.stoppedNow) under concurrent callers (B-graph).  Build with an overlay that replaces actor/process.go by
// its shimmed copy (mutexes and atomics pass scheduling gates) and adds the accessor actor.VerifStopWaiter.
//
// Mode 1 (follow): every edge of the TLC state graph is driven through the real code: the thread the edge names is
// released for exactly one mutex operation and the projection of the real state (who holds the mutex, every thread's
// parked operation, how often each caller's cancel function has been called) is compared with the target node.
// Mode 2 (explore): after a disagreement every gate schedule of the real code is enumerated and judged by the
// property only: when all calls have returned every caller has been signalled exactly once, and nobody is signalled
// before the process has begun to stop.
package main

import (
	"context"
	"encoding/json"
	"flag"
	"fmt"
	"os"
	"sort"
	"strings"
	"sync"
	"time"

	"github.com/anthdm/hollywood/actor"
	"github.com/anthdm/hollywood/verifshim/sched"
	"verifharness/graph"
)

type config struct {
	Callers []string `json:"callers"`
	Actor   string   `json:"actor"`
}

type state struct {
	Holder string            `json:"holder"`
	Pc     map[string]string `json:"pc"`
	Called map[string]int    `json:"called"`
}

func key(holder string, pc map[string]string, called map[string]int) string {
	var sb strings.Builder
	fmt.Fprintf(&sb, "h=%s", holder)
	names := make([]string, 0, len(pc))
	for t := range pc {
		names = append(names, t)
	}
	sort.Strings(names)
	for _, t := range names {
		fmt.Fprintf(&sb, " %s:%s", t, pc[t])
	}
	cs := make([]string, 0, len(called))
	for c := range called {
		cs = append(cs, c)
	}
	sort.Strings(cs)
	sb.WriteString(" called{")
	for _, c := range cs {
		fmt.Fprintf(&sb, "%s:%d ", c, called[c])
	}
	sb.WriteString("}")
	return sb.String()
}

type inst struct {
	cfg     config
	c       *sched.Controller
	gs      map[string]*sched.G
	mu      sync.Mutex
	called  map[string]int
	early   string // a caller signalled before the process began to stop
	began   bool   // the actor thread has taken its first step
	actorG  *sched.G
}

func newInst(cfg config) (*inst, error) {
	x := &inst{cfg: cfg, gs: map[string]*sched.G{}, called: map[string]int{}}
	e, err := actor.NewEngine(actor.NewEngineConfig())
	if err != nil {
		return nil, err
	}
	register, release := actor.VerifStopWaiter(e)
	x.c = sched.NewController()
	x.c.Timeout = 10 * time.Second
	for _, name := range cfg.Callers {
		name := name
		x.called[name] = 0
		g, err := x.c.Spawn(name, func() {
			_, cancel := context.WithCancel(context.Background())
			register(func() {
				cancel()
				x.mu.Lock()
				x.called[name]++
				if !x.began && x.early == "" {
					x.early = name
				}
				x.mu.Unlock()
			})
		})
		if err != nil {
			return nil, err
		}
		x.gs[name] = g
	}
	g, err := x.c.Spawn(cfg.Actor, func() { release() })
	if err != nil {
		return nil, err
	}
	x.gs[cfg.Actor] = g
	x.actorG = g
	return x, nil
}

func (x *inst) close() { x.c.Abort() }

func (x *inst) pc(g *sched.G) string {
	if g.Done() {
		return "done"
	}
	switch g.Op.Kind {
	case "Lock":
		return "lock"
	case "Unlock":
		return "unlock"
	}
	return "?" + g.Op.Kind
}

func (x *inst) project() string {
	pcs := map[string]string{}
	holder := "none"
	for name, g := range x.gs {
		p := x.pc(g)
		pcs[name] = p
		if p == "unlock" {
			if holder != "none" {
				holder = "two:" + holder + "+" + name
			} else {
				holder = name
			}
		}
	}
	x.mu.Lock()
	called := map[string]int{}
	for c, n := range x.called {
		called[c] = n
	}
	x.mu.Unlock()
	return key(holder, pcs, called)
}

func (x *inst) step(name string) error {
	g := x.gs[name]
	if g == nil || !g.Parked() {
		return fmt.Errorf("thread %q is not parked", name)
	}
	if name == x.cfg.Actor {
		x.mu.Lock()
		x.began = true
		x.mu.Unlock()
	}
	if _, err := x.c.Step(g); err != nil {
		return err
	}
	if g.Panic != nil {
		return fmt.Errorf("panic in %s: %v", name, g.Panic)
	}
	return nil
}

func (x *inst) enabled() []string {
	var out []string
	for name, g := range x.gs {
		if !g.Parked() {
			continue
		}
		if g.Op.Kind == "Lock" {
			if m, ok := g.Op.Obj.(interface{ Held() bool }); ok && m.Held() {
				continue
			}
		}
		out = append(out, name)
	}
	sort.Strings(out)
	return out
}

func (x *inst) allDone() bool {
	for _, g := range x.gs {
		if !g.Done() {
			return false
		}
	}
	return true
}

// judge: the property at a state where every call has returned
func (x *inst) judge() string {
	x.mu.Lock()
	defer x.mu.Unlock()
	if x.early != "" {
		return "caller " + x.early + " was signalled before the process began to stop"
	}
	names := append([]string{}, x.cfg.Callers...)
	sort.Strings(names)
	for _, c := range names {
		if x.called[c] == 0 {
			return "the process has stopped and every call has returned, but caller " + c + " was never signalled (its context is never done)"
		}
		if x.called[c] > 1 {
			return fmt.Sprintf("caller %s was signalled %d times", c, x.called[c])
		}
	}
	return ""
}

type divergence struct {
	Path []string `json:"path"`
	Want string   `json:"want"`
	Got  string   `json:"got"`
	Err  string   `json:"err,omitempty"`
}

type violation struct {
	What     string   `json:"what"`
	Schedule []string `json:"schedule"`
}

type report struct {
	Nodes        int          `json:"nodes"`
	EdgesTotal   int          `json:"edges_total"`
	EdgesCovered int          `json:"edges_covered"`
	Runs         int          `json:"runs"`
	Steps        int          `json:"steps"`
	Divergences  []divergence `json:"divergences"`
	Violations   []violation  `json:"violations"`
	Explored     int          `json:"explored_schedules"`
	Complete     bool         `json:"explore_complete"`
	Samples      [][]string   `json:"samples"`
	Error        string       `json:"error,omitempty"`
}

func threadOf(e graph.Edge) string {
	var s string
	if len(e.Args) > 0 {
		_ = json.Unmarshal(e.Args[0], &s)
	}
	return s
}

type replayFile struct {
	Config   config   `json:"config"`
	Schedule []string `json:"schedule"`
}

func doReplay(path string) int {
	b, err := os.ReadFile(path)
	if err != nil {
		fmt.Fprintln(os.Stderr, err)
		return 2
	}
	var rf replayFile
	if err := json.Unmarshal(b, &rf); err != nil {
		fmt.Fprintln(os.Stderr, err)
		return 2
	}
	x, err := newInst(rf.Config)
	if err != nil {
		fmt.Fprintln(os.Stderr, err)
		return 2
	}
	defer x.close()
	for _, th := range rf.Schedule {
		if err := x.step(th); err != nil {
			if strings.HasPrefix(err.Error(), "panic in ") {
				fmt.Println("REPRODUCED:", err)
				return 1
			}
			fmt.Println("NOT-REPRODUCED (harness):", err)
			return 0
		}
	}
	if !x.allDone() {
		if len(x.enabled()) == 0 {
			fmt.Println("REPRODUCED: the calls block each other for ever")
			return 1
		}
		fmt.Println("NOT-REPRODUCED: schedule incomplete")
		return 0
	}
	if what := x.judge(); what != "" {
		fmt.Println("REPRODUCED:", what)
		return 1
	}
	fmt.Println("NOT-REPRODUCED")
	return 0
}

func main() {
	gpath := flag.String("graph", "", "graph json")
	cfgs := flag.String("config", "", "instance config json")
	seed := flag.Int64("seed", 1, "seed")
	budget := flag.Duration("explore-budget", 60*time.Second, "time budget for mode 2")
	replay := flag.String("replay", "", "replay a violation file")
	flag.Parse()
	if *replay != "" {
		os.Exit(doReplay(*replay))
	}
	var cfg config
	if err := json.Unmarshal([]byte(*cfgs), &cfg); err != nil {
		fmt.Fprintln(os.Stderr, "config:", err)
		os.Exit(2)
	}
	rep := &report{Complete: true}
	g, err := graph.Load(*gpath)
	defer func() { _ = json.NewEncoder(os.Stdout).Encode(rep) }()
	if err != nil {
		rep.Error = err.Error()
		return
	}
	rep.Nodes = len(g.Nodes)
	want := map[string]string{}
	for id, raw := range g.Nodes {
		var s state
		if err := json.Unmarshal(raw, &s); err != nil {
			rep.Error = "state: " + err.Error()
			return
		}
		want[id] = key(s.Holder, s.Pc, s.Called)
	}
	rep.EdgesCovered, rep.EdgesTotal = g.Cover(*seed, 0, 0, func(path []int) bool {
		rep.Runs++
		x, err := newInst(cfg)
		if err != nil {
			rep.Error = err.Error()
			return false
		}
		defer x.close()
		names := []string{}
		if got := x.project(); got != want[g.Init[0]] {
			rep.Divergences = append(rep.Divergences, divergence{names, want[g.Init[0]], got, ""})
			return false
		}
		for _, ei := range path {
			e := g.Edges[ei]
			th := threadOf(e)
			names = append(names, th+":"+e.Act)
			rep.Steps++
			if err := x.step(th); err != nil {
				rep.Divergences = append(rep.Divergences, divergence{names, want[e.Dst], x.project(), err.Error()})
				return false
			}
			if got := x.project(); got != want[e.Dst] {
				rep.Divergences = append(rep.Divergences, divergence{names, want[e.Dst], got, ""})
				return false
			}
		}
		if x.allDone() {
			if what := x.judge(); what != "" {
				sch := make([]string, len(path))
				for k, ei := range path {
					sch[k] = threadOf(g.Edges[ei])
				}
				rep.Violations = append(rep.Violations, violation{what, sch})
			}
		}
		if len(rep.Samples) < 2 {
			rep.Samples = append(rep.Samples, names)
		}
		return true
	})
	if rep.Error != "" || len(rep.Divergences) == 0 {
		return
	}
	// mode 2: all gate schedules of the code, judged by the property
	deadline := time.Now().Add(*budget)
	work := [][]string{{}}
	for len(work) > 0 && len(rep.Violations) < 3 {
		if time.Now().After(deadline) {
			rep.Complete = false
			break
		}
		path := work[len(work)-1]
		work = work[:len(work)-1]
		x, err := newInst(cfg)
		if err != nil {
			rep.Error = err.Error()
			return
		}
		rep.Explored++
		cur := append([]string{}, path...)
		ok := true
		for _, th := range path {
			if err := x.step(th); err != nil {
				if strings.HasPrefix(err.Error(), "panic in ") {
					rep.Violations = append(rep.Violations, violation{err.Error(), append([]string{}, cur...)})
				} else {
					rep.Complete = false
				}
				ok = false
				break
			}
		}
		for ok {
			en := x.enabled()
			if len(en) == 0 {
				if x.allDone() {
					if what := x.judge(); what != "" {
						rep.Violations = append(rep.Violations, violation{what, append([]string{}, cur...)})
					}
				} else {
					rep.Violations = append(rep.Violations, violation{"the calls block each other for ever (every thread waits for the mutex)", append([]string{}, cur...)})
				}
				break
			}
			for _, th := range en[1:] {
				work = append(work, append(append([]string{}, cur...), th))
			}
			if err := x.step(en[0]); err != nil {
				cur = append(cur, en[0])
				if strings.HasPrefix(err.Error(), "panic in ") {
					rep.Violations = append(rep.Violations, violation{err.Error(), append([]string{}, cur...)})
				} else {
					rep.Complete = false
				}
				break
			}
			cur = append(cur, en[0])
		}
		x.close()
	}
}
