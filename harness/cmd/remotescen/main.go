// remotescen replays the operation sequences enumerated by TLC from specs/RemoteLink.tla on two real
// engines connected by their real remotes over loopback TCP (B-scenario with phase-level steps):
// bursts of messages from sender goroutines on A to an actor on B, requests answered by B, B going
// down (Remote.Stop().Wait()) and a fresh engine coming up on its address, Start / Stop called
// twice.  After every step the harness waits for what TLC predicts (delivered bursts, dead letters,
// unreachable events, answers) and compares: exactly once, per-sender order, sender PID, dead letters
// carrying the original message, a fresh attempt after the peer is back.
package main

import (
	"bufio"
	"encoding/json"
	"flag"
	"fmt"
	"io"
	"log/slog"
	"net"
	"os"
	"sort"
	"strconv"
	"strings"
	"sync"
	"sync/atomic"
	"time"

	"github.com/anthdm/hollywood/actor"
	"github.com/anthdm/hollywood/remote"
)

type Snap struct {
	Recv     map[string][][2]int `json:"recv"`
	Dead     [][2]any            `json:"dead"`
	Unreach  int                 `json:"unreach"`
	Answered int                 `json:"answered"`
	Stream   string              `json:"stream"`
	RecvC    []int               `json:"recvc"`
}

type Op struct {
	Op    string `json:"op"`
	T     string `json:"t"`
	Big   bool   `json:"big"`
	K     int    `json:"k"`
	After Snap   `json:"after"`
}

type Case struct {
	Hist []Op `json:"hist"`
}

type Failure struct {
	Index int      `json:"index"`
	Step  int      `json:"step"`
	What  string   `json:"what"`
	Steps []string `json:"steps"`
	Case  Case     `json:"case"`
}

type delivery struct {
	t      string
	k, i   int
	gen    int
	sender string
}

type sideB struct {
	gen int
	e   *actor.Engine
	r   *remote.Remote
}

type rig struct {
	addrC        string
	c            *actor.Engine
	rc           *remote.Remote
	logC         []delivery
	addrA, addrB string
	a            *actor.Engine
	ra           *remote.Remote
	b            *sideB
	mu           sync.Mutex
	log          []delivery
	dead         map[string]int // "t:k" -> messages that came back as dead letters
	deadBad      string
	unreach      int
	senderPID    *actor.PID
	nsent        map[string]int
}

// freeAddr: a loopback address nobody listens on.  Ports are taken from below the ephemeral range, each one only once
// per process: a port the kernel hands out for ":0" can be handed out again while a peer of some case is down (to
// another case's listener, or as the source port of the very dial that is supposed to fail -- a TCP self-connect), and
// the "unreachable" peer would then be reachable.
var nextPort atomic.Int32

func init() { nextPort.Store(int32(12000 + (os.Getpid()%90)*200)) }

func freeAddr() string {
	for {
		p := nextPort.Add(1)
		if p >= 32000 {
			nextPort.Store(12000)
			continue
		}
		l, err := net.Listen("tcp", fmt.Sprintf("127.0.0.1:%d", p))
		if err != nil {
			continue
		}
		l.Close()
		return l.Addr().String()
	}
}

func parse(data []byte) (string, int, int, bool) {
	p := strings.Split(string(data), ":")
	if len(p) != 3 {
		return "", 0, 0, false
	}
	k, e1 := strconv.Atoi(p[1])
	i, e2 := strconv.Atoi(p[2])
	return p[0], k, i, e1 == nil && e2 == nil
}

func (r *rig) startB(gen int) error {
	rb := remote.New(r.addrB, remote.NewConfig())
	e, err := actor.NewEngine(actor.NewEngineConfig().WithRemote(rb))
	if err != nil {
		return err
	}
	e.SpawnFunc(func(c *actor.Context) {
		if m, ok := c.Message().(*remote.TestMessage); ok {
			t, k, i, ok := parse(m.Data)
			if !ok {
				return
			}
			s := "nil"
			if c.Sender() != nil {
				s = c.Sender().Address + "/" + c.Sender().ID
			}
			r.mu.Lock()
			r.log = append(r.log, delivery{t, k, i, gen, s})
			r.mu.Unlock()
		}
	}, "rec", actor.WithID("1"), actor.WithInboxSize(1024))
	e.SpawnFunc(func(c *actor.Context) {
		if _, ok := c.Message().(*actor.Ping); ok {
			c.Respond(&actor.Pong{From: c.PID()})
		}
	}, "echo", actor.WithID("1"))
	r.b = &sideB{gen, e, rb}
	return nil
}

var caseNo atomic.Int32

func newRig() (*rig, error) {
	r := &rig{addrA: freeAddr(), addrB: freeAddr(), dead: map[string]int{}, nsent: map[string]int{}}
	if caseNo.Add(1)%2 == 1 {
		// a peer known by a host name spelt with capitals: an address is an opaque string to the router, the writer
		// and the events that mention it
		r.addrB = "LocalHost" + r.addrB[strings.LastIndex(r.addrB, ":"):]
	}
	r.ra = remote.New(r.addrA, remote.NewConfig())
	a, err := actor.NewEngine(actor.NewEngineConfig().WithRemote(r.ra))
	if err != nil {
		return nil, err
	}
	r.a = a
	r.senderPID = a.SpawnFunc(func(*actor.Context) {}, "sender", actor.WithID("1"))
	mon := a.SpawnFunc(func(c *actor.Context) {
		switch m := c.Message().(type) {
		case actor.RemoteUnreachableEvent:
			if m.ListenAddr == r.addrB {
				r.mu.Lock()
				r.unreach++
				r.mu.Unlock()
			}
		case actor.DeadLetterEvent:
			target, sender, msg, ok := remote.VerifUnwrapDeliver(m.Message)
			if !ok {
				return
			}
			tm, ok := msg.(*remote.TestMessage)
			if !ok {
				return
			}
			t, k, i, ok := parse(tm.Data)
			if !ok {
				return
			}
			r.mu.Lock()
			if t == "c" {
				r.deadBad = fmt.Sprintf("message c:%d:%d to the other peer, which is up all the time, came back as a dead letter", k, i)
				r.mu.Unlock()
				return
			}
			r.dead[t+":"+fmt.Sprint(k)]++
			wantSender := i%2 == 0
			if target == nil || target.Address != r.addrB || target.ID != "rec/1" || (sender != nil) != wantSender {
				r.deadBad = fmt.Sprintf("dead letter for message %s:%d:%d carries target %v sender %v", t, k, i, target, sender)
			}
			r.mu.Unlock()
		}
	}, "verifmon", actor.WithID("m"), actor.WithInboxSize(1024))
	a.Subscribe(mon)
	if err := r.startB(1); err != nil {
		return nil, err
	}
	// the other peer: up for the whole case
	r.addrC = freeAddr()
	r.rc = remote.New(r.addrC, remote.NewConfig())
	ce, err := actor.NewEngine(actor.NewEngineConfig().WithRemote(r.rc))
	if err != nil {
		return nil, err
	}
	r.c = ce
	ce.SpawnFunc(func(c *actor.Context) {
		if m, ok := c.Message().(*remote.TestMessage); ok {
			if t, k, i, ok := parse(m.Data); ok {
				r.mu.Lock()
				r.logC = append(r.logC, delivery{t, k, i, 0, ""})
				r.mu.Unlock()
			}
		}
	}, "rec", actor.WithID("1"), actor.WithInboxSize(1024))
	return r, nil
}

func (r *rig) close() {
	if r.b != nil {
		r.b.r.Stop().Wait()
	}
	r.ra.Stop().Wait()
	if r.rc != nil {
		r.rc.Stop().Wait()
	}
}

// observed state in the model's terms
func (r *rig) observe() (map[string][][2]int, map[string]int, int, string) {
	r.mu.Lock()
	defer r.mu.Unlock()
	recv := map[string][][2]int{}
	problem := r.deadBad
	next := map[string]int{}
	seen := map[string]bool{}
	for _, d := range r.log {
		key := d.t + ":" + fmt.Sprint(d.k)
		id := key + ":" + fmt.Sprint(d.i)
		if seen[id] && problem == "" {
			problem = "message " + id + " was delivered twice"
		}
		seen[id] = true
		if d.i != next[key] && problem == "" {
			problem = fmt.Sprintf("messages of burst %s arrived out of order: %d arrived where %d was due", key, d.i, next[key])
		}
		next[key] = d.i + 1
		want := "nil"
		if d.i%2 == 0 {
			want = r.senderPID.Address + "/" + r.senderPID.ID
		}
		if d.sender != want && problem == "" {
			problem = fmt.Sprintf("message %s arrived with sender %s, sent with %s", id, d.sender, want)
		}
		if d.i == 0 {
			recv[d.t] = append(recv[d.t], [2]int{d.k, d.gen})
		}
	}
	// a burst counts as delivered once all of it is there
	for t, bs := range recv {
		var full [][2]int
		for _, b := range bs {
			if next[t+":"+fmt.Sprint(b[0])] == r.nsent[t+":"+fmt.Sprint(b[0])] {
				full = append(full, b)
			}
		}
		recv[t] = full
	}
	dead := map[string]int{}
	for k, n := range r.dead {
		dead[k] = n
	}
	return recv, dead, r.unreach, problem
}

// observeC: the bursts that have arrived completely on C, in order of arrival
func (r *rig) observeC() ([]int, string) {
	r.mu.Lock()
	defer r.mu.Unlock()
	out := []int{}
	next := map[int]int{}
	for _, d := range r.logC {
		if d.i != next[d.k] {
			return out, fmt.Sprintf("messages of burst c:%d to the other peer arrived out of order or twice: %d arrived where %d was due", d.k, d.i, next[d.k])
		}
		next[d.k] = d.i + 1
		if d.i == 0 {
			out = append(out, d.k)
		}
	}
	full := []int{}
	for _, k := range out {
		if next[k] == r.nsent["c:"+fmt.Sprint(k)] {
			full = append(full, k)
		}
	}
	return full, ""
}

func sameRecv(got map[string][][2]int, want map[string][][2]int) bool {
	for t, w := range want {
		g := got[t]
		if len(g) != len(w) {
			return false
		}
		for i := range w {
			if g[i] != w[i] {
				return false
			}
		}
	}
	for t, g := range got {
		if len(g) > 0 && len(want[t]) == 0 {
			return false
		}
	}
	return true
}

func deadKeys(want [][2]any) map[string]bool {
	out := map[string]bool{}
	for _, d := range want {
		out[fmt.Sprint(d[0])+":"+fmt.Sprint(d[1])] = true
	}
	return out
}

func (r *rig) matches(after Snap, answered int) (bool, string) {
	recv, dead, unreach, problem := r.observe()
	if problem != "" {
		return false, problem
	}
	if !sameRecv(recv, after.Recv) {
		return false, fmt.Sprintf("bursts delivered on B (burst, incarnation of B) per sender: %v, expected %v", recv, after.Recv)
	}
	wd := deadKeys(after.Dead)
	for k := range wd {
		if dead[k] != r.nsent[k] {
			return false, fmt.Sprintf("burst %s: %d of %d messages came back as dead letters", k, dead[k], r.nsent[k])
		}
	}
	for k, n := range dead {
		if !wd[k] && n > 0 {
			return false, fmt.Sprintf("%d messages of burst %s came back as dead letters although the peer was reachable", n, k)
		}
	}
	if unreach != after.Unreach {
		return false, fmt.Sprintf("%d RemoteUnreachableEvents published, expected %d", unreach, after.Unreach)
	}
	gotC, pc := r.observeC()
	if pc != "" {
		return false, pc
	}
	if fmt.Sprint(gotC) != fmt.Sprint(append([]int{}, after.RecvC...)) {
		return false, fmt.Sprintf("bursts delivered on the other peer: %v, expected %v", gotC, after.RecvC)
	}
	if answered != after.Answered {
		return false, fmt.Sprintf("%d requests answered, expected %d", answered, after.Answered)
	}
	return true, ""
}

func runCase(c *Case) (int, string, []string) {
	r, err := newRig()
	names := []string{}
	if err != nil {
		return -1, "harness: " + err.Error(), names
	}
	defer r.close()
	target := actor.NewPID(r.addrB, "rec/1")
	echo := actor.NewPID(r.addrB, "echo/1")
	answered := 0
	for i, op := range c.Hist {
		names = append(names, op.Op)
		switch op.Op {
		case "burst":
			n := 40
			if op.Big {
				n = 20000
			}
			key := op.T + ":" + fmt.Sprint(op.K)
			r.mu.Lock()
			r.nsent[key] = n
			r.mu.Unlock()
			done := make(chan struct{})
			go func() { // the sender goroutine of this thread
				for j := 0; j < n; j++ {
					var s *actor.PID
					if j%2 == 0 {
						s = r.senderPID
					}
					r.a.SendWithSender(target, &remote.TestMessage{Data: []byte(fmt.Sprintf("%s:%d:%d", op.T, op.K, j))}, s)
				}
				close(done)
			}()
			select {
			case <-done:
			case <-time.After(20 * time.Second):
				return i, "sending blocks the caller", names
			}
		case "burstc":
			n := 40
			key := "c:" + fmt.Sprint(op.K)
			r.mu.Lock()
			r.nsent[key] = n
			r.mu.Unlock()
			tc := actor.NewPID(r.addrC, "rec/1")
			for j := 0; j < n; j++ {
				r.a.Send(tc, &remote.TestMessage{Data: []byte(fmt.Sprintf("c:%d:%d", op.K, j))})
			}
		case "ask":
			v, err := r.a.Request(echo, &actor.Ping{From: r.senderPID}, 20*time.Second).Result()
			if err != nil {
				return i, "a request to an actor on the reachable peer got no reply: " + err.Error(), names
			}
			if _, ok := v.(*actor.Pong); !ok {
				return i, fmt.Sprintf("a request to the peer was answered with %T", v), names
			}
			answered++
		case "down":
			r.b.r.Stop().Wait()
			if c, err := net.DialTimeout("tcp", r.addrB, time.Second); err == nil {
				c.Close()
				return i, "after Remote.Stop().Wait() the node still accepts inbound connections", names
			}
		case "up":
			if err := r.startB(r.b.gen + 1); err != nil {
				return i, "harness: " + err.Error(), names
			}
		case "start-twice":
			func() {
				defer func() {
					if v := recover(); v != nil {
						err = fmt.Errorf("panic: %v", v)
					}
				}()
				_ = r.ra.Start(r.a)
			}()
			if err != nil {
				return i, "Remote.Start on a running remote: " + err.Error(), names
			}
		case "stop-twice":
			done := make(chan struct{})
			go func() { r.b.r.Stop().Wait(); close(done) }()
			select {
			case <-done:
			case <-time.After(3 * time.Second):
				return i, "Remote.Stop on a stopped remote does not return", names
			}
		}
		// wait for what the model predicts; whatever is wrong then is reported
		deadline := time.Now().Add(60 * time.Second) // generous: it only costs when something is wrong
		var ok bool
		var what string
		for {
			ok, what = r.matches(op.After, answered)
			// "operations are issued after the router has handled the unreachable event": a writer that shuts down tells
			// the router and the event stream first and leaves the registry a moment later; the next operation waits
			// for that too (a send issued in between finds the old writer still registered under the id the new one
			// needs: see DESIGN.md section 8)
			if ok && op.After.Stream != "live" && r.a.Registry.GetPID("stream", r.addrB) != nil {
				ok, what = false, "the stream writer for the peer is still registered although the model has none"
			}
			if ok || time.Now().After(deadline) {
				break
			}
			time.Sleep(2 * time.Millisecond)
		}
		if !ok {
			return i, fmt.Sprintf("after %s: %s", op.Op, what), names
		}
	}
	// nothing may trickle in afterwards (duplicates, late dead letters)
	time.Sleep(30 * time.Millisecond)
	last := c.Hist[len(c.Hist)-1]
	if ok, what := r.matches(last.After, answered); !ok {
		return len(c.Hist) - 1, "after the last step settled: " + what, names
	}
	return -1, "", names
}

// outage: free-running rounds of "traffic while the peer goes away and comes back".  A sender keeps sending to an actor
// on B while B's remote is stopped; after every pending connection attempt has failed B comes back on its address.
// Judged by the clause of RemoteLink.tla that holds whatever happened to the messages of the outage
// (C17_FreshAttempt): a later send to the same address makes a fresh attempt that succeeds once the peer is up.
func outage(round int) string {
	addrA, addrB := freeAddr(), freeAddr()
	ra := remote.New(addrA, remote.NewConfig())
	a, err := actor.NewEngine(actor.NewEngineConfig().WithRemote(ra))
	if err != nil {
		return "harness: " + err.Error()
	}
	defer func() { ra.Stop().Wait() }()
	var got atomic.Int64
	startB := func() (*remote.Remote, error) {
		rb := remote.New(addrB, remote.NewConfig())
		b, err := actor.NewEngine(actor.NewEngineConfig().WithRemote(rb))
		if err != nil {
			return nil, err
		}
		b.SpawnFunc(func(c *actor.Context) {
			if _, ok := c.Message().(*remote.TestMessage); ok {
				got.Add(1)
			}
		}, "rec", actor.WithID("1"))
		return rb, nil
	}
	rb, err := startB()
	if err != nil {
		return "harness: " + err.Error()
	}
	target := actor.NewPID(addrB, "rec/1")
	a.Send(target, &remote.TestMessage{Data: []byte("hello")})
	for i := 0; got.Load() == 0 && i < 3000; i++ {
		time.Sleep(10 * time.Millisecond)
	}
	if got.Load() == 0 {
		rb.Stop().Wait()
		return "harness: first contact with the peer failed"
	}
	stop, done := make(chan struct{}), make(chan struct{})
	go func() {
		defer close(done)
		for {
			select {
			case <-stop:
				return
			default:
				a.Send(target, &remote.TestMessage{Data: []byte("x")})
			}
		}
	}()
	time.Sleep(5 * time.Millisecond)
	rb.Stop().Wait()
	time.Sleep(50 * time.Millisecond)
	close(stop)
	<-done
	time.Sleep(4 * time.Second) // every pending connection attempt fails (3 dials, about 3 s)
	rb2, err := startB()
	if err != nil {
		return "harness: " + err.Error()
	}
	defer func() { rb2.Stop().Wait() }()
	before := got.Load()
	for i := 0; i < 8; i++ { // each send may start an attempt of its own; one of them has to get through
		a.Send(target, &remote.TestMessage{Data: []byte("again")})
		for j := 0; j < 400 && got.Load() == before; j++ {
			time.Sleep(10 * time.Millisecond)
		}
		if got.Load() > before {
			return ""
		}
	}
	return fmt.Sprintf("round %d: the peer is up again, but 8 later sends 4 s apart never arrived: no fresh connection attempt is made for its address", round)
}

func main() {
	in := flag.String("cases", "", "ndjson file of cases exported by TLC")
	workers := flag.Int("workers", 8, "")
	maxFail := flag.Int("max-failures", 6, "")
	rounds := flag.Int("outage", 0, "run this many free-running outage rounds instead of cases")
	flag.Parse()
	slog.SetDefault(slog.New(slog.NewTextHandler(io.Discard, nil)))
	if *rounds > 0 {
		var mu sync.Mutex
		var wg sync.WaitGroup
		var fails []string
		next := make(chan int)
		for w := 0; w < *workers; w++ {
			wg.Add(1)
			go func() {
				defer wg.Done()
				for k := range next {
					if what := outage(k); what != "" {
						mu.Lock()
						fails = append(fails, what)
						mu.Unlock()
					}
				}
			}()
		}
		for k := 0; k < *rounds; k++ {
			next <- k
		}
		close(next)
		wg.Wait()
		json.NewEncoder(os.Stdout).Encode(map[string]any{"rounds": *rounds, "failures": fails})
		if len(fails) > 0 {
			os.Exit(1)
		}
		return
	}
	f, err := os.Open(*in)
	if err != nil {
		fmt.Fprintln(os.Stderr, err)
		os.Exit(2)
	}
	defer f.Close()
	var cases []Case
	rd := bufio.NewReaderSize(f, 1<<22)
	for {
		line, err := rd.ReadBytes('\n')
		if len(line) > 1 {
			var c Case
			if e := json.Unmarshal(line, &c); e != nil {
				fmt.Fprintln(os.Stderr, "case:", e)
				os.Exit(2)
			}
			cases = append(cases, c)
		}
		if err != nil {
			break
		}
	}
	type report struct {
		Cases    int        `json:"cases"`
		Steps    int        `json:"steps"`
		Failures []Failure  `json:"failures"`
		Samples  [][]string `json:"samples"`
	}
	rep := report{}
	var mu sync.Mutex
	var wg sync.WaitGroup
	idx := make(chan int)
	for w := 0; w < *workers; w++ {
		wg.Add(1)
		go func() {
			defer wg.Done()
			for i := range idx {
				step, what, names := runCase(&cases[i])
				mu.Lock()
				rep.Cases++
				rep.Steps += len(cases[i].Hist)
				if what != "" {
					rep.Failures = append(rep.Failures, Failure{Index: i, Step: step, What: what, Steps: names, Case: cases[i]})
				} else if len(rep.Samples) < 2 {
					rep.Samples = append(rep.Samples, names)
				}
				mu.Unlock()
			}
		}()
	}
	for i := range cases {
		mu.Lock()
		stop := len(rep.Failures) >= *maxFail
		mu.Unlock()
		if stop {
			break
		}
		idx <- i
	}
	close(idx)
	wg.Wait()
	sort.Slice(rep.Failures, func(i, j int) bool { return rep.Failures[i].Index < rep.Failures[j].Index })
	json.NewEncoder(os.Stdout).Encode(rep)
	if len(rep.Failures) > 0 {
		os.Exit(1)
	}
}
