// inboxgraph binds specs/Inbox.tla to the real actor.Inbox + ringbuffer (B-graph).
//
// Build: with an overlay that replaces actor/inbox.go by its shimmed copy (atomics, the
// ring and `go` statements pass scheduling gates) -- see tools/check.py.
//
// Mode 1 (follow): every edge of the TLC state graph is driven through the real code: the
// goroutine the edge names is released for exactly one operation and the projection of the
// real state (procStatus, ring contents, every thread's parked operation, batches in hand,
// delivered log) is compared with the target node.  Full cover with no disagreement means
// code and model are step-for-step equivalent on this instance.
//
// Mode 2 (explore): after a disagreement the model is no longer trusted for this code.
// The driver then enumerates the gate schedules of the real code itself (DFS with the
// projection as visited-set key) and judges outcomes only by the property oracles:
//
//	C02  two goroutines inside Invoke at once
//	C03  everything finished, inbox started and not stopped, ring not empty
//	C01  duplicate / reordered-per-sender / altered / missing delivery
//
// A disagreement without an oracle failure is reported as non-conformance, not a violation.
package main

import (
	"encoding/json"
	"flag"
	"fmt"
	"os"
	"sort"
	"strings"
	"sync/atomic"
	"time"
	"unsafe"

	"github.com/anthdm/hollywood/actor"
	"github.com/anthdm/hollywood/verifshim/sched"
	"verifharness/graph"
)

type msg struct {
	S string
	K int
}

func (m *msg) UnmarshalJSON(b []byte) error {
	var raw []json.RawMessage
	if err := json.Unmarshal(b, &raw); err != nil {
		return err
	}
	if len(raw) != 2 {
		return fmt.Errorf("msg: %s", b)
	}
	if err := json.Unmarshal(raw[0], &m.S); err != nil {
		return err
	}
	return json.Unmarshal(raw[1], &m.K)
}
func (m msg) String() string { return fmt.Sprintf("%s.%d", m.S, m.K) }

// canonical projection shared by model states and the real instance
type canon struct {
	Status    string            `json:"status"`
	Ring      []msg             `json:"ring"`
	Spc       map[string]string `json:"spc"`
	Sk        map[string]int    `json:"sk"`
	Stpc      string            `json:"stpc"`
	Sppc      string            `json:"sppc"`
	Wpc       map[string]string `json:"wpc"`
	Wbatch    map[string][]msg  `json:"wbatch"`
	Delivered []msg             `json:"delivered"`
}

func (c *canon) key() string {
	var sb strings.Builder
	sb.WriteString(c.Status)
	sb.WriteString("|R")
	for _, m := range c.Ring {
		sb.WriteString(m.String() + ",")
	}
	sb.WriteString("|S")
	for _, s := range sortedKeys(c.Spc) {
		fmt.Fprintf(&sb, "%s=%s/%d,", s, c.Spc[s], c.Sk[s])
	}
	fmt.Fprintf(&sb, "|st=%s|sp=%s|W", c.Stpc, c.Sppc)
	for _, w := range sortedKeys(c.Wpc) {
		if c.Wpc[w] == "free" {
			continue
		}
		fmt.Fprintf(&sb, "%s=%s[", w, c.Wpc[w])
		for _, m := range c.Wbatch[w] {
			sb.WriteString(m.String() + ",")
		}
		sb.WriteString("],")
	}
	sb.WriteString("|D")
	for _, m := range c.Delivered {
		sb.WriteString(m.String() + ",")
	}
	return sb.String()
}

func sortedKeys[V any](m map[string]V) []string {
	ks := make([]string, 0, len(m))
	for k := range m {
		ks = append(ks, k)
	}
	sort.Strings(ks)
	return ks
}

// ---------------------------------------------------------------- real instance

type payload struct {
	S string
	K int
}

type recProc struct {
	inst *inst
	pid  *actor.PID
}

func (p *recProc) Start()                           {}
func (p *recProc) PID() *actor.PID                  { return p.pid }
func (p *recProc) Send(*actor.PID, any, *actor.PID) {}
func (p *recProc) Shutdown()                        {}
func (p *recProc) Invoke(msgs []actor.Envelope) {
	sched.Gate(sched.Op{Kind: "InvEnter", Obj: msgs})
	p.inst.inside.Add(1)
	for _, e := range msgs {
		pl, _ := e.Msg.(payload)
		m := msg{pl.S, pl.K}
		p.inst.delivered = append(p.inst.delivered, m)
		want := p.inst.senderPID(pl.S, pl.K)
		if e.Sender != want {
			p.inst.altered = append(p.inst.altered, m.String())
		}
	}
	entry := make([]actor.Envelope, len(msgs))
	copy(entry, msgs)
	sched.Gate(sched.Op{Kind: "InvExit"})
	// process.Invoke reads the batch element by element while other goroutines keep sending: the slice handed to
	// Invoke must not change under it (read again after an arbitrary number of foreign steps)
	for i := range msgs {
		if msgs[i] != entry[i] {
			was, _ := entry[i].Msg.(payload)
			now, _ := msgs[i].Msg.(payload)
			p.inst.altered = append(p.inst.altered, fmt.Sprintf("batch element %d changed from %v to %v while Invoke was running", i, was, now))
		}
	}
	p.inst.inside.Add(-1)
}

type config struct {
	Senders   []string
	NMsg      int
	Slots     []string
	WithStart bool
	WithStop  bool
	RingSize  int
}

type inst struct {
	cfg        config
	c          *sched.Controller
	in         *actor.Inbox
	proc       *recProc
	threads    map[string]*sched.G
	role       map[*sched.G]string // "sender","starter","stopper","worker"
	sk         map[string]*int32
	shadow     []msg // pushed, not yet popped (API-level view of the ring)
	delivered  []msg
	altered    []string
	inside     atomic.Int32
	statusAddr uintptr
	pids       map[string]*actor.PID
	inbatch    map[string][]msg
	err        error
	realLen    func() int64
	exploring  bool
	extra      int
}

var errHarnessLimit = fmt.Errorf("harness limit: more than 64 extra worker goroutines")

func (in *inst) senderPID(s string, k int) *actor.PID {
	if k%2 == 0 {
		return nil // every second message is sent without a sender
	}
	return in.pids[s]
}

func newInst(cfg config) (*inst, error) {
	x := &inst{cfg: cfg, threads: map[string]*sched.G{}, role: map[*sched.G]string{}, sk: map[string]*int32{}, pids: map[string]*actor.PID{}}
	x.c = sched.NewController()
	x.c.Timeout = 10 * time.Second
	x.in = actor.NewInbox(cfg.RingSize)
	x.proc = &recProc{inst: x, pid: actor.NewPID("local", "rec")}
	for _, s := range cfg.Senders {
		x.pids[s] = actor.NewPID("local", "sender/"+s)
	}
	for _, s := range cfg.Senders {
		s := s
		ctr := new(int32)
		*ctr = 1
		x.sk[s] = ctr
		g, err := x.c.Spawn(s, func() {
			for k := 1; k <= cfg.NMsg; k++ {
				atomic.StoreInt32(ctr, int32(k))
				x.in.Send(actor.Envelope{Msg: payload{s, k}, Sender: x.senderPID(s, k)})
			}
		})
		if err != nil {
			return nil, err
		}
		x.threads[s] = g
		x.role[g] = "sender"
	}
	if cfg.WithStart {
		g, err := x.c.Spawn("st", func() { x.in.Start(x.proc) })
		if err != nil {
			return nil, err
		}
		x.threads["st"] = g
		x.role[g] = "starter"
	} else {
		return nil, fmt.Errorf("WithStart=FALSE instances are not bound (sub-behaviours of WithStart=TRUE)")
	}
	if cfg.WithStop {
		g, err := x.c.Spawn("sp", func() { _ = x.in.Stop() })
		if err != nil {
			return nil, err
		}
		x.threads["sp"] = g
		x.role[g] = "stopper"
	}
	x.learnAddr()
	return x, nil
}

func (x *inst) close() { x.c.Abort() }

func (x *inst) learnAddr() {
	for _, g := range x.c.ParkedGs() {
		switch g.Op.Kind {
		case "CAS32", "Load32", "Swap32", "Store32":
			if x.statusAddr == 0 {
				x.statusAddr = g.Op.Addr
			}
		case "Len", "Push", "PopN":
			if x.realLen == nil {
				type lener interface {
					Real() interface{ Len() int64 }
				}
				_ = lener(nil)
			}
		}
	}
}

var statusNames = map[int32]string{0: "stopped", 1: "starting", 2: "idle", 3: "running"}

func (x *inst) status() string {
	if x.statusAddr == 0 {
		return "?"
	}
	v := atomic.LoadInt32((*int32)(unsafe.Pointer(x.statusAddr)))
	if n, ok := statusNames[v]; ok {
		return n
	}
	return fmt.Sprint("status#", v)
}

func (x *inst) pc(name string, g *sched.G) string {
	if g.Done() {
		switch x.role[g] {
		case "worker":
			return "free"
		default:
			return "done"
		}
	}
	op := g.Op
	switch x.role[g] {
	case "sender":
		switch {
		case op.Kind == "Push":
			return "push"
		case op.Kind == "CAS32" && op.A == 2 && op.B == 3:
			return "cas"
		}
	case "starter":
		switch {
		case op.Kind == "CAS32" && op.A == 0 && op.B == 1:
			return "cas"
		case op.Kind == "Swap32" && op.A == 2:
			return "swap"
		case op.Kind == "CAS32" && op.A == 2 && op.B == 3:
			return "sched"
		}
	case "stopper":
		if op.Kind == "Store32" && op.A == 0 {
			return "store"
		}
	case "worker":
		switch {
		case op.Kind == "Load32":
			return "load"
		case op.Kind == "PopN":
			return "pop"
		case op.Kind == "InvEnter":
			return "inv"
		case op.Kind == "InvExit":
			return "in"
		case op.Kind == "CAS32" && op.A == 3 && op.B == 2:
			return "cas"
		case op.Kind == "Len":
			return "len"
		case op.Kind == "CAS32" && op.A == 2 && op.B == 3:
			return "sched"
		}
	}
	return "?" + op.Kind + fmt.Sprintf("(%d,%d)", op.A, op.B)
}

func batchOf(g *sched.G) []msg {
	envs, _ := g.Op.Obj.([]actor.Envelope)
	out := make([]msg, 0, len(envs))
	for _, e := range envs {
		pl, _ := e.Msg.(payload)
		out = append(out, msg{pl.S, pl.K})
	}
	return out
}

func (x *inst) project() *canon {
	c := &canon{Status: x.status(), Ring: append([]msg{}, x.shadow...), Spc: map[string]string{}, Sk: map[string]int{},
		Stpc: "done", Sppc: "done", Wpc: map[string]string{}, Wbatch: map[string][]msg{}, Delivered: append([]msg{}, x.delivered...)}
	for _, w := range x.cfg.Slots {
		c.Wpc[w] = "free"
		c.Wbatch[w] = []msg{}
	}
	for name, g := range x.threads {
		switch x.role[g] {
		case "sender":
			c.Spc[name] = x.pc(name, g)
			c.Sk[name] = int(atomic.LoadInt32(x.sk[name]))
		case "starter":
			c.Stpc = x.pc(name, g)
		case "stopper":
			c.Sppc = x.pc(name, g)
		case "worker":
			p := x.pc(name, g)
			c.Wpc[name] = p
			if p == "inv" {
				c.Wbatch[name] = batchOf(g)
			} else if p == "in" {
				c.Wbatch[name] = x.inbatch[name]
			}
		}
	}
	return c
}

// step releases thread `name` for one operation and maintains the API-level bookkeeping.
func (x *inst) step(name string) error {
	g := x.threads[name]
	if g == nil {
		return fmt.Errorf("no thread %q", name)
	}
	if !g.Parked() {
		return fmt.Errorf("thread %q is not parked", name)
	}
	before := g.Op
	var pushed *msg
	if before.Kind == "Push" {
		if e, ok := before.Obj.(actor.Envelope); ok {
			pl, _ := e.Msg.(payload)
			pushed = &msg{pl.S, pl.K}
		}
	}
	var inb []msg
	if before.Kind == "InvEnter" {
		inb = batchOf(g)
	}
	created, err := x.c.Step(g)
	if err != nil {
		return err
	}
	if g.Panic != nil {
		return fmt.Errorf("panic in %s: %v", name, g.Panic)
	}
	if pushed != nil {
		x.shadow = append(x.shadow, *pushed)
	}
	if before.Kind == "PopN" && !g.Done() && g.Op.Kind == "InvEnter" {
		for _, m := range batchOf(g) {
			for i, s := range x.shadow {
				if s == m {
					x.shadow = append(x.shadow[:i:i], x.shadow[i+1:]...)
					break
				}
			}
		}
	}
	if before.Kind == "InvEnter" {
		if x.inbatch == nil {
			x.inbatch = map[string][]msg{}
		}
		x.inbatch[name] = inb
	}
	if before.Kind == "InvExit" {
		delete(x.inbatch, name)
	}
	for _, ng := range created {
		// lowest free slot that is not the creating worker itself
		slot := ""
		for _, w := range x.cfg.Slots {
			if w == name {
				continue
			}
			if og, ok := x.threads[w]; !ok || og.Done() {
				slot = w
				break
			}
		}
		if slot == "" {
			if !x.exploring {
				return fmt.Errorf("more live workers than slots")
			}
			// mode 2: the code is judged by the oracles only; it may create more goroutines than the model has slots for
			x.extra++
			if x.extra > 64 {
				return errHarnessLimit
			}
			slot = fmt.Sprintf("x%d", x.extra)
		}
		ng.Name = slot
		x.threads[slot] = ng
		x.role[ng] = "worker"
		if ng.Panic != nil {
			return fmt.Errorf("panic in %s: %v", slot, ng.Panic)
		}
	}
	if x.statusAddr == 0 {
		x.learnAddr()
	}
	return nil
}

func (x *inst) enabled() []string {
	var out []string
	for name, g := range x.threads {
		if g.Parked() {
			out = append(out, name)
		}
	}
	sort.Strings(out)
	return out
}

// ---------------------------------------------------------------- oracles (mode 2)

type verdict struct {
	Prop string `json:"prop"`
	What string `json:"what"`
}

func (x *inst) oracles(terminal bool) []verdict {
	var out []verdict
	if n := x.inside.Load(); n > 1 {
		out = append(out, verdict{"C02", fmt.Sprintf("%d goroutines inside Invoke at the same time", n)})
	}
	seen := map[msg]bool{}
	last := map[string]int{}
	for _, m := range x.delivered {
		if seen[m] {
			out = append(out, verdict{"C01", "message " + m.String() + " handed to Invoke twice"})
		}
		seen[m] = true
		if m.K <= last[m.S] && !seen[msg{m.S, -1}] {
			out = append(out, verdict{"C01", "messages of sender " + m.S + " delivered out of order"})
			seen[msg{m.S, -1}] = true
		}
		if m.K > last[m.S] {
			last[m.S] = m.K
		}
		if m.K < 1 || m.K > x.cfg.NMsg || x.pids[m.S] == nil {
			out = append(out, verdict{"C01", "delivered a message nobody sent: " + m.String()})
		}
	}
	if len(x.altered) > 0 {
		out = append(out, verdict{"C01", "message or sender altered: " + strings.Join(x.altered, ", ")})
	}
	if terminal && !x.cfg.WithStop {
		total := len(x.cfg.Senders) * x.cfg.NMsg
		if len(x.shadow) > 0 && len(seen) < total {
			out = append(out, verdict{"C03", fmt.Sprintf("all threads finished, inbox %s, %d message(s) left in the ring and never processed", x.status(), len(x.shadow))})
			out = append(out, verdict{"C01", fmt.Sprintf("%d accepted message(s) never handed to Invoke", total-len(seen))})
		} else if len(seen) < total {
			out = append(out, verdict{"C01", fmt.Sprintf("%d accepted message(s) vanished (neither delivered nor in the ring)", total-len(seen))})
		}
	}
	return out
}

// ---------------------------------------------------------------- main

type divergence struct {
	RingSize int      `json:"ring_size"`
	Path     []string `json:"path"`
	Want     string   `json:"want"`
	Got      string   `json:"got"`
	Err      string   `json:"err,omitempty"`
}

type violation struct {
	Prop     string   `json:"prop"`
	What     string   `json:"what"`
	RingSize int      `json:"ring_size"`
	Schedule []string `json:"schedule"`
}

type report struct {
	Nodes        int          `json:"nodes"`
	EdgesTotal   int          `json:"edges_total"`
	EdgesCovered int          `json:"edges_covered"`
	Runs         int          `json:"runs"`
	Steps        int          `json:"steps"`
	Terminals    int          `json:"terminal_nodes_reached"`
	Divergences  []divergence `json:"divergences"`
	Explore      *exploreRep  `json:"explore,omitempty"`
	Violations   []violation  `json:"violations"`
	Samples      [][]string   `json:"samples"`
	Error        string       `json:"error,omitempty"`
}

type exploreRep struct {
	States    int  `json:"states"`
	Runs      int  `json:"runs"`
	Steps     int  `json:"steps"`
	Complete  bool `json:"complete"`
	Terminals int  `json:"terminals"`
}

func threadOf(e graph.Edge) string {
	switch {
	case strings.HasPrefix(e.Act, "St"):
		return "st"
	case strings.HasPrefix(e.Act, "Sp"):
		return "sp"
	}
	var s string
	if len(e.Args) > 0 {
		_ = json.Unmarshal(e.Args[0], &s)
	}
	return s
}

func main() {
	gpath := flag.String("graph", "", "graph json")
	cfgs := flag.String("config", "", "instance config json")
	seed := flag.Int64("seed", 1, "seed")
	maxRuns := flag.Int("maxruns", 0, "max follow runs (0 = full cover)")
	budget := flag.Duration("explore-budget", 60*time.Second, "time budget for mode 2")
	forceExplore := flag.Bool("explore", false, "run mode 2 even without divergence")
	replay := flag.String("replay", "", "replay a violation file")
	flag.Parse()

	var cfg config
	if err := json.Unmarshal([]byte(*cfgs), &cfg); err != nil && *replay == "" {
		fmt.Fprintln(os.Stderr, "config:", err)
		os.Exit(2)
	}
	if *replay != "" {
		os.Exit(doReplay(*replay, cfg))
	}
	rep := &report{}
	defer func() { _ = json.NewEncoder(os.Stdout).Encode(rep) }()

	g, err := graph.Load(*gpath)
	if err != nil {
		rep.Error = err.Error()
		return
	}
	rep.Nodes = len(g.Nodes)
	want := map[string]string{}
	for id, raw := range g.Nodes {
		var c canon
		if err := json.Unmarshal(raw, &c); err != nil {
			rep.Error = "state: " + err.Error()
			return
		}
		want[id] = c.key()
	}
	terminals := map[string]bool{}
	rep.EdgesCovered, rep.EdgesTotal = g.Cover(*seed, *maxRuns, 0, func(path []int) bool {
		rep.Runs++
		x, err := newInst(cfg)
		if err != nil {
			rep.Error = err.Error()
			return false
		}
		defer x.close()
		names := make([]string, 0, len(path))
		cur := g.Init[0]
		if got := x.project().key(); got != want[cur] {
			rep.Divergences = append(rep.Divergences, divergence{cfg.RingSize, names, want[cur], got, ""})
			return false
		}
		for _, ei := range path {
			e := g.Edges[ei]
			th := threadOf(e)
			names = append(names, th+":"+e.Act)
			rep.Steps++
			if err := x.step(th); err != nil {
				rep.Divergences = append(rep.Divergences, divergence{cfg.RingSize, names, want[e.Dst], x.project().key(), err.Error()})
				return false
			}
			if got := x.project().key(); got != want[e.Dst] {
				rep.Divergences = append(rep.Divergences, divergence{cfg.RingSize, names, want[e.Dst], got, ""})
				return false
			}
			if len(x.altered) > 0 {
				rep.Divergences = append(rep.Divergences, divergence{cfg.RingSize, names, want[e.Dst], "", x.altered[0]})
				return false
			}
			cur = e.Dst
		}
		if g.Terminal(cur) {
			terminals[cur] = true
			// a terminal node of the model must be terminal in the code as well
			if en := x.enabled(); len(en) > 0 {
				rep.Divergences = append(rep.Divergences, divergence{cfg.RingSize, names, "terminal", "enabled: " + strings.Join(en, ","), ""})
				return false
			}
		}
		if len(rep.Samples) < 2 {
			rep.Samples = append(rep.Samples, names)
		}
		return true
	})
	rep.Terminals = len(terminals)
	if rep.Error != "" {
		return
	}
	if len(rep.Divergences) > 0 || *forceExplore {
		explore(cfg, rep, *budget)
	}
}

// explore: DFS over the gate schedules of the real code, judged by the oracles only.
func explore(cfg config, rep *report, budget time.Duration) {
	er := &exploreRep{}
	rep.Explore = er
	deadline := time.Now().Add(budget)
	visited := map[string]bool{}
	work := [][]string{{}}
	seenViol := map[string]bool{}
	er.Complete = true
	for len(work) > 0 {
		if time.Now().After(deadline) {
			er.Complete = false
			break
		}
		path := work[len(work)-1]
		work = work[:len(work)-1]
		x, err := newInst(cfg)
		if err != nil {
			rep.Error = err.Error()
			return
		}
		x.exploring = true
		er.Runs++
		ok := true
		for _, th := range path {
			er.Steps++
			if err := x.step(th); err != nil {
				if !isCodeFailure(err) {
					er.Complete = false
				} else {
					record(rep, seenViol, cfg, path, []verdict{{"C01", err.Error()}, {"C02", err.Error()}, {"C03", err.Error()}})
				}
				ok = false
				break
			}
		}
		cur := append([]string{}, path...)
		for ok {
			k := x.project().key()
			if visited[k] {
				break
			}
			visited[k] = true
			er.States++
			en := x.enabled()
			if vs := x.oracles(len(en) == 0); len(vs) > 0 {
				record(rep, seenViol, cfg, cur, vs)
				break
			}
			if len(en) == 0 {
				er.Terminals++
				break
			}
			for _, th := range en[1:] {
				work = append(work, append(append([]string{}, cur...), th))
			}
			er.Steps++
			if err := x.step(en[0]); err != nil {
				cur = append(cur, en[0])
				if !isCodeFailure(err) {
					er.Complete = false
				} else {
					record(rep, seenViol, cfg, cur, []verdict{{"C01", err.Error()}, {"C02", err.Error()}, {"C03", err.Error()}})
				}
				break
			}
			cur = append(cur, en[0])
		}
		x.close()
		if len(rep.Violations) >= 12 {
			er.Complete = false
			break
		}
	}
}

// isCodeFailure: a panic inside the inbox / ring code under some schedule is a failure of the code (the message in
// hand is lost, the actor dies); everything else step() can report is a limit of the harness and proves nothing
func isCodeFailure(err error) bool {
	return strings.HasPrefix(err.Error(), "panic in ")
}

func record(rep *report, seen map[string]bool, cfg config, sched []string, vs []verdict) {
	for _, v := range vs {
		if seen[v.Prop] {
			continue // one witness per property is enough
		}
		seen[v.Prop] = true
		rep.Violations = append(rep.Violations, violation{v.Prop, v.What, cfg.RingSize, append([]string{}, sched...)})
	}
}

type replayFile struct {
	Prop     string   `json:"prop"`
	Config   config   `json:"config"`
	Schedule []string `json:"schedule"`
}

func doReplay(path string, _ config) int {
	b, err := os.ReadFile(path)
	if err != nil {
		fmt.Fprintln(os.Stderr, err)
		return 2
	}
	var rf replayFile
	if err := json.Unmarshal(b, &rf); err != nil {
		fmt.Fprintln(os.Stderr, err)
		return 2
	}
	x, err := newInst(rf.Config)
	if err != nil {
		fmt.Fprintln(os.Stderr, err)
		return 2
	}
	x.exploring = true
	defer x.close()
	for _, th := range rf.Schedule {
		if err := x.step(th); err != nil {
			if !isCodeFailure(err) {
				fmt.Println("NOT-REPRODUCED (harness):", err)
				return 0
			}
			fmt.Println("REPRODUCED:", err)
			return 1
		}
	}
	for _, v := range x.oracles(len(x.enabled()) == 0) {
		if v.Prop == rf.Prop {
			fmt.Println("REPRODUCED:", v.What)
			return 1
		}
	}
	fmt.Println("NOT-REPRODUCED")
	return 0
}
