// actorscen replays TLC behaviours of specs/Actor.tla on the real engine (B-scenario).
//
// Every Receive of a model actor first reports "actor a, incarnation i, about to handle m" and
// waits for permission (a gate).  The driver issues the behaviour's environment actions
// (Spawn / Send / Poison / Stop) and grants the gates in the behaviour's order, optionally with
// an injected panic, so batch composition and cross-actor order are forced.  Everything the
// properties talk about is recorded (delivery log with incarnation, middleware chain,
// Children(), registry look-ups, done stop contexts; published events; stop contexts) and
// written out, to be compared with the behaviour (conformance) and judged by TLC against
// ActorProps.tla (verdict).  Only the public API of the actor package is used.
package main

import (
	"bufio"
	"context"
	"encoding/json"
	"flag"
	"fmt"
	"io"
	"log/slog"
	"os"
	"reflect"
	"runtime"
	"sort"
	"strings"
	"sync"
	"sync/atomic"
	"time"

	"github.com/anthdm/hollywood/actor"
)

// ------------------------------------------------------------------ input

type ActorCfg struct {
	Parent      string   `json:"parent"`
	Kids        []string `json:"kids"`
	MaxRestarts int      `json:"maxRestarts"`
	RespawnKids bool     `json:"respawnKids"` // every incarnation's Started handler calls SpawnChild for its children again
	Succ        string   `json:"succ"`        // spawned under this actor's id from inside its final Stopped handler
}

type TokCfg struct {
	Target   string `json:"target"`
	Graceful bool   `json:"graceful"`
}

type Config struct {
	Actors map[string]ActorCfg `json:"actors"`
	Toks   map[string]TokCfg   `json:"toks"`
}

type Gate struct {
	A    string `json:"a"`
	Inc  int    `json:"inc"`
	Kind string `json:"kind"`
	ID   int    `json:"id"`
}

type Step struct {
	Op    string   `json:"op"` // spawn | send | stop | grant
	A     string   `json:"a,omitempty"`
	ID    int      `json:"id,omitempty"`
	T     string   `json:"t,omitempty"`
	Inc   int      `json:"inc,omitempty"`
	Kind  string   `json:"kind,omitempty"`
	Crash string   `json:"crash,omitempty"` // "" | "plain" | "internal"
	Again bool     `json:"again,omitempty"` // spawn of an id that was spawned before
	Gates []Gate   `json:"gates"`           // gates pending once the step has settled
	Done  []string `json:"done"`            // tokens done once the step has settled
	Spret []string `json:"spret"`           // Spawn calls that have returned
}

type Scenario struct {
	ID      int    `json:"id"`
	MW      int    `json:"mw"`
	Inbox   int    `json:"inbox"`
	Steps   []Step `json:"steps"`
	NEvents int    `json:"nevents"` // events the model publishes for model actors
	Racy    bool   `json:"racy"`    // the behaviour passes through states where two actors can move on their own
}

// ------------------------------------------------------------------ output

type Entry struct {
	A     string   `json:"a"`
	Inc   int      `json:"inc"`
	Kind  string   `json:"kind"`
	ID    int      `json:"id"`
	MW    bool     `json:"mw"`
	Kids  []string `json:"kids"`
	Alive []string `json:"alive"`
	Sreg  bool     `json:"sreg"`
	Dn    []string `json:"dn"`
	Par   string   `json:"par"`
	Seq   int64    `json:"seq"`
	Exit  int64    `json:"exit"`
}

type Event struct {
	E string `json:"e"`
	A string `json:"a"`
	N int    `json:"n"`
}

type DoneRec struct {
	At  int  `json:"at"`
	Reg bool `json:"reg"`
	Imm bool `json:"imm"`
}

type Result struct {
	ID         int                `json:"id"`
	Diverged   bool               `json:"diverged"`
	DivergedAt int                `json:"diverged_at"`
	Divergence string             `json:"divergence,omitempty"`
	Log        []Entry            `json:"log"`
	Events     []Event            `json:"events"`
	Done       map[string]DoneRec `json:"done"`
	Issued     []string           `json:"issued"`
	SentBefore map[string][]int   `json:"sentBefore"`
	Sent       map[string][]int   `json:"sent"`
	Reg        map[string]bool    `json:"reg"`
	Spret      []string           `json:"spret"`
	Overlap    bool               `json:"overlap"`
	Pending    []Gate             `json:"pending"`
	Quiet      bool               `json:"quiet"`
	Witness    bool               `json:"witness"`   // an unrelated actor still answers after the scenario
	DupSpawns  int                `json:"dupspawns"` // Spawn calls issued for an id that was registered at that moment
	Respawns   int                `json:"respawns"`  // Spawn calls issued for an id that had been spawned before and was free again
	Producers  map[string]int     `json:"producers"` // Producer invocations per actor
}

// ------------------------------------------------------------------ harness

type userMsg struct{ ID int }
type ping struct{}
type pong struct{}

type grant struct {
	crash   string
	abandon bool
}

type arrival struct {
	g     Gate
	reply chan grant
	ack   chan struct{} // closed by the receiver once the granted delivery is in the log
	seq   int64
}

// release grants a parked delivery and waits until the receiver has recorded it.
func (a *arrival) release(g grant) {
	a.reply <- g
	select {
	case <-a.ack:
	case <-time.After(10 * time.Second):
		fmt.Fprintln(os.Stderr, "harness: granted delivery was never recorded:", a.g)
		os.Exit(3)
	}
}

type harness struct {
	cfg       Config
	sc        Scenario
	e         *actor.Engine
	seq       atomic.Int64
	arrive    chan *arrival
	mu        sync.Mutex
	onSpret   func(string)
	dupKids   int // SpawnChild calls that found the child registered / gone
	reKids    int
	free      int             // > 0: free-running pass (no gates, environment actions back to back)
	crashAt   map[Gate]string // free-running: the deliveries the behaviour lets fail
	log       []Entry
	events    []Event
	incs      map[string]int
	pids      map[string]*actor.PID
	inside    map[string]int
	overlap   bool
	seen      map[string][]mwSeen
	base      []actor.MiddlewareFunc
	cancelled context.Context
	ctxs      map[string]context.Context
	issued    []string
	over      atomic.Bool
	extra     []*arrival // deliveries that arrived while another delivery of the same actor was parked
	evCount   atomic.Int64
}

// idName: the name whose id this actor runs under (a successor takes over its predecessor's id)
func (h *harness) idName(name string) string {
	for n, c := range h.cfg.Actors {
		if c.Succ == name {
			return h.idName(n)
		}
	}
	return name
}

func (h *harness) pidOf(name string) *actor.PID {
	// ids: roots "a/<name>", children "<parent id>/k/<name>"
	name = h.idName(name)
	c := h.cfg.Actors[name]
	if c.Parent == "" {
		return actor.NewPID("local", "a/"+name)
	}
	return actor.NewPID("local", h.pidOf(c.Parent).ID+"/k/"+name)
}

func (h *harness) nameOf(pid *actor.PID) string {
	if pid == nil {
		return ""
	}
	for n, p := range h.pids {
		if p.ID == pid.ID {
			return h.idName(n) // (a successor runs under its predecessor's id: events cannot tell them apart)
		}
	}
	return ""
}

func (h *harness) desc(name string) []string {
	var out []string
	for n := range h.cfg.Actors {
		for p := h.cfg.Actors[n].Parent; p != ""; p = h.cfg.Actors[p].Parent {
			if p == name {
				out = append(out, n)
				break
			}
		}
	}
	sort.Strings(out)
	return out
}

func (h *harness) registered(name string) bool {
	p := h.pids[name]
	// GetPID(kind, id): kind+"/"+id == full id; split at the last separator
	id := p.ID
	i := len(id) - 1
	for i >= 0 && id[i] != '/' {
		i--
	}
	return h.e.Registry.GetPID(id[:i], id[i+1:]) != nil
}

// stillRegistered: the actor itself is registered (once its successor runs under the id, the registry entry is the
// successor's)
func (h *harness) stillRegistered(name string) bool {
	if !h.registered(name) {
		return false
	}
	if succ := h.cfg.Actors[name].Succ; succ != "" {
		h.mu.Lock()
		taken := h.incs[succ] > 0
		h.mu.Unlock()
		return !taken
	}
	return true
}

type rec struct {
	h    *harness
	name string
	inc  int
}

func kindOf(m any) (string, int) {
	switch x := m.(type) {
	case actor.Initialized:
		return "Init", 0
	case actor.Started:
		return "Started", 0
	case actor.Stopped:
		return "Stopped", 0
	case userMsg:
		return "user", x.ID
	}
	return reflect.TypeOf(m).String(), 0
}

func (r *rec) Receive(c *actor.Context) {
	h := r.h
	kind, id := kindOf(c.Message())
	if h.over.Load() {
		return
	}
	h.mu.Lock()
	h.inside[r.name]++
	if h.inside[r.name] > 1 {
		h.overlap = true
	}
	seen := h.seen[h.idName(r.name)]
	h.seen[h.idName(r.name)] = nil
	mwok := len(seen) == h.sc.MW
	for i, v := range seen {
		if v.pos != i+1 || v.kind != kind || v.id != id || v.sender != c.Sender() {
			mwok = false
		}
		if (i == h.sc.MW-1) != (v.owner == r.name) || (v.owner != "" && v.owner != r.name) {
			mwok = false
		}
	}
	h.mu.Unlock()

	var a *arrival
	var g grant
	seq := h.seq.Add(1)
	if h.free > 0 {
		// free-running: no gate; the delivery fails if the behaviour says so; now and then the handler takes a while
		g = grant{crash: h.crashAt[Gate{r.name, r.inc, kind, id}]}
		if d := freeDelay(h.free, h.sc.ID, int(seq), 3); d > 0 {
			time.Sleep(d)
		}
	} else {
		a = &arrival{g: Gate{r.name, r.inc, kind, id}, reply: make(chan grant, 1), ack: make(chan struct{}), seq: seq}
		h.arrive <- a
		g = <-a.reply
		if g.abandon {
			h.mu.Lock()
			h.inside[r.name]--
			h.mu.Unlock()
			close(a.ack)
			return
		}
	}
	// observations inside the delivery
	en := Entry{A: r.name, Inc: r.inc, Kind: kind, ID: id, MW: mwok, Seq: seq, Kids: []string{}, Alive: []string{}, Dn: []string{}}
	// a consistent snapshot when other actors move at the same time (free-running passes): the children table is read
	// before and after the registry and has to be the same both times (a child leaves the table first, the registry
	// second: a child that is in the table throughout was registered when the registry was read)
	kidsNow := func() []string {
		out := []string{}
		for _, k := range c.Children() {
			out = append(out, h.nameOf(k))
		}
		sort.Strings(out)
		return out
	}
	for try := 0; try < 8; try++ {
		k1 := kidsNow()
		alive := []string{}
		for _, d := range h.desc(r.name) {
			if h.registered(d) {
				alive = append(alive, d)
			}
		}
		k2 := kidsNow()
		en.Kids, en.Alive = k2, alive
		if fmt.Sprint(k1) == fmt.Sprint(k2) {
			break
		}
	}
	en.Sreg = h.registered(r.name)
	en.Par = h.nameOf(c.Parent())
	h.mu.Lock()
	for t, cx := range h.ctxs {
		if cx.Err() != nil {
			en.Dn = append(en.Dn, t)
		}
	}
	sort.Strings(en.Dn)
	h.log = append(h.log, en)
	idx := len(h.log) - 1
	h.mu.Unlock()
	if a != nil {
		close(a.ack)
	}

	if succ := h.cfg.Actors[r.name].Succ; kind == "Stopped" && succ != "" && !en.Sreg {
		h.mu.Lock()
		ever := h.incs[succ] > 0
		h.mu.Unlock()
		if !ever { // the id is free now: a successor takes it over (Spawn returns after its Started)
			h.mu.Lock()
			h.reKids++ // (the id is in use again: what the exhaustion / stop clauses say about "the" actor of an id does not apply)
			h.mu.Unlock()
			c.Engine().Spawn(h.producer(succ), "a", h.opts(succ)...)
			if h.onSpret != nil {
				h.onSpret(succ)
			}
		}
	}
	if kind == "Started" {
		for _, k := range h.cfg.Actors[r.name].Kids {
			h.mu.Lock()
			ever := h.incs[k] > 0
			h.mu.Unlock()
			if ever && !h.cfg.Actors[r.name].RespawnKids {
				continue // each child is spawned once, by the first incarnation that reaches Started
			}
			if ever {
				h.mu.Lock()
				if h.registered(k) {
					h.dupKids++
				} else {
					h.reKids++
				}
				h.mu.Unlock()
			}
			c.SpawnChild(h.producer(k), "k", h.opts(k)...)
		}
	}
	h.mu.Lock()
	h.log[idx].Exit = h.seq.Add(1)
	h.inside[r.name]--
	h.mu.Unlock()
	switch g.crash {
	case "plain":
		panic(fmt.Sprintf("injected fault in %s/%d %s %d", r.name, r.inc, kind, id))
	case "internal":
		panic(&actor.InternalError{From: "verif", Err: fmt.Errorf("injected internal error in %s/%d %s %d", r.name, r.inc, kind, id)})
	}
}

func (h *harness) producer(name string) actor.Producer {
	return func() actor.Receiver {
		h.mu.Lock()
		h.incs[name]++
		i := h.incs[name]
		h.mu.Unlock()
		return &rec{h: h, name: name, inc: i}
	}
}

// Middleware.  Positions 1..k-1 of every chain are shared middlewares kept in ONE slice with spare capacity
// (h.base) from which every actor's options are built; position k is a middleware owned by the actor.  Each
// middleware records, for the actor whose delivery it wraps (taken from the Context), its position and the message
// it saw.  A delivery is well wrapped iff exactly the positions 1..k were entered in this order, the last one by the
// actor's own middleware, and every middleware saw the message and sender the receiver then sees.
type mwSeen struct {
	pos    int
	owner  string
	kind   string
	id     int
	sender *actor.PID
}

func (h *harness) note(c *actor.Context, pos int, owner string) {
	kind, id := kindOf(c.Message())
	name := h.nameOf(c.PID())
	h.mu.Lock()
	h.seen[name] = append(h.seen[name], mwSeen{pos, owner, kind, id, c.Sender()})
	h.mu.Unlock()
}

func (h *harness) sharedMW(pos int) actor.MiddlewareFunc {
	return func(next actor.ReceiveFunc) actor.ReceiveFunc {
		return func(c *actor.Context) {
			h.note(c, pos, "")
			next(c)
		}
	}
}

func (h *harness) ownMW(name string, pos int) actor.MiddlewareFunc {
	return func(next actor.ReceiveFunc) actor.ReceiveFunc {
		return func(c *actor.Context) {
			h.note(c, pos, name)
			next(c)
		}
	}
}

func (h *harness) opts(name string) []actor.OptFunc {
	o := []actor.OptFunc{actor.WithID(h.idName(name)), actor.WithMaxRestarts(h.cfg.Actors[name].MaxRestarts),
		actor.WithRestartDelay(50 * time.Microsecond), actor.WithInboxSize(h.sc.Inbox)}
	if h.sc.MW > 0 {
		o = append(o, actor.WithMiddleware(h.base[:h.sc.MW-1]...), actor.WithMiddleware(h.ownMW(name, h.sc.MW)))
	}
	if h.cfg.Actors[name].Parent == "" && h.sc.ID%2 == 1 {
		// the spawn context is user data: a cancelled one must change nothing
		o = append(o, actor.WithContext(h.cancelled))
	}
	return o
}

// monitor: subscribed to the event stream, records the events that concern model actors
func (h *harness) monitor(c *actor.Context) {
	var ev *Event
	switch m := c.Message().(type) {
	case actor.ActorInitializedEvent:
		ev = &Event{"Initialized", h.nameOf(m.PID), 0}
	case actor.ActorStartedEvent:
		ev = &Event{"Started", h.nameOf(m.PID), 0}
	case actor.ActorStoppedEvent:
		ev = &Event{"Stopped", h.nameOf(m.PID), 0}
	case actor.ActorRestartedEvent:
		ev = &Event{"Restarted", h.nameOf(m.PID), int(m.Restarts)}
	case actor.ActorMaxRestartsExceededEvent:
		ev = &Event{"MaxRestartsExceeded", h.nameOf(m.PID), 0}
	case actor.ActorDuplicateIdEvent:
		ev = &Event{"DuplicateId", h.nameOf(m.PID), 0}
	case actor.DeadLetterEvent:
		n := 0
		if u, ok := m.Message.(userMsg); ok {
			n = u.ID
		}
		ev = &Event{"DeadLetter", h.nameOf(m.Target), n}
	}
	if ev != nil && ev.A != "" {
		h.mu.Lock()
		h.events = append(h.events, *ev)
		h.mu.Unlock()
		h.evCount.Add(1)
	}
}

var settle = 400 * time.Millisecond
var grace = 300 * time.Microsecond

const crowdSize = 400

func sameGates(p map[string]*arrival, want []Gate) bool {
	if len(p) != len(want) {
		return false
	}
	for _, g := range want {
		a, ok := p[g.A]
		if !ok || a.g != g {
			return false
		}
	}
	return true
}

func gatesOf(p map[string]*arrival) []Gate {
	out := []Gate{}
	for _, a := range p {
		out = append(out, a.g)
	}
	sort.Slice(out, func(i, j int) bool { return out[i].A < out[j].A })
	return out
}

func runScenario(cfg Config, sc Scenario, free int) *Result {
	e, err := actor.NewEngine(actor.NewEngineConfig())
	if err != nil {
		panic(err)
	}
	h := &harness{cfg: cfg, sc: sc, e: e, arrive: make(chan *arrival, 64), incs: map[string]int{}, pids: map[string]*actor.PID{},
		inside: map[string]int{}, seen: map[string][]mwSeen{}, ctxs: map[string]context.Context{}, free: free, crashAt: map[Gate]string{}}
	for n := range cfg.Actors {
		h.pids[n] = h.pidOf(n)
	}
	for _, st := range sc.Steps {
		if st.Op == "grant" && st.Crash != "" {
			h.crashAt[Gate{st.A, st.Inc, st.Kind, st.ID}] = st.Crash
		}
	}
	h.base = make([]actor.MiddlewareFunc, 0, 8)
	for i := 1; i <= 3; i++ {
		h.base = append(h.base, h.sharedMW(i))
	}
	cctx, ccancel := context.WithCancel(context.Background())
	ccancel()
	h.cancelled = cctx
	mon := e.SpawnFunc(h.monitor, "verifmon", actor.WithID("m"))
	e.Subscribe(mon)
	// the witness lives under an id that has a model actor's id as a proper string prefix (a/A -> a/Aw/1): ids are
	// opaque, what happens to one actor must not touch another whose id merely looks similar
	wroot := ""
	for n, c := range cfg.Actors {
		if c.Parent == "" && h.idName(n) == n && (wroot == "" || n < wroot) {
			wroot = n
		}
	}
	witness := e.SpawnFunc(func(c *actor.Context) {
		if _, ok := c.Message().(ping); ok {
			c.Respond(pong{})
		}
	}, "a", actor.WithID(wroot+"w/1")) // (an id may contain the separator itself)
	// make sure the subscription is in place before the scenario starts (same inbox, FIFO)
	barrier := make(chan struct{}, 1) // (buffered: the event may get there before this goroutine starts waiting)
	b := e.SpawnFunc(func(c *actor.Context) {
		if _, ok := c.Message().(actor.DeadLetterEvent); ok {
			select {
			case barrier <- struct{}{}:
			default:
			}
		}
	}, "verifbarrier", actor.WithID("b"))
	e.Subscribe(b)
	e.Send(actor.NewPID("local", "nobody/x"), ping{})
	<-barrier
	e.Unsubscribe(b)

	// bystanders: in some scenarios a crowd of unrelated actors sits inside Receive for the whole scenario (each inbox
	// has its own worker: what one actor does in its handler must not hold up another actor's deliveries)
	crowdRelease := make(chan struct{})
	if sc.ID%8 == 5 {
		var in atomic.Int64
		for k := 0; k < crowdSize; k++ {
			p := e.SpawnFunc(func(c *actor.Context) {
				if _, ok := c.Message().(ping); ok {
					in.Add(1)
					<-crowdRelease
				}
			}, "crowd", actor.WithID(fmt.Sprint(k)), actor.WithInboxSize(2))
			e.Send(p, ping{})
		}
		for until := time.Now().Add(2 * time.Second); in.Load() < crowdSize && time.Now().Before(until); {
			time.Sleep(200 * time.Microsecond)
		}
	}

	parents := map[string]context.CancelFunc{} // PoisonCtx callers' own contexts
	res := &Result{ID: sc.ID, DivergedAt: -1, Done: map[string]DoneRec{}, SentBefore: map[string][]int{}, Sent: map[string][]int{}, Reg: map[string]bool{}}
	pending := map[string]*arrival{}
	spret := map[string]bool{}
	var spmu sync.Mutex
	h.onSpret = func(name string) {
		spmu.Lock()
		spret[name] = true
		spmu.Unlock()
	}
	doneSet := func() []string {
		out := []string{}
		for t := range res.Done {
			out = append(out, t)
		}
		sort.Strings(out)
		return out
	}
	pollDone := func() {
		h.mu.Lock()
		n := len(h.log)
		h.mu.Unlock()
		for t, cx := range h.ctxs {
			if _, ok := res.Done[t]; !ok && cx.Err() != nil {
				res.Done[t] = DoneRec{At: n, Reg: h.stillRegistered(cfg.Toks[t].Target)}
			}
		}
	}
	spretList := func() []string {
		spmu.Lock()
		defer spmu.Unlock()
		out := []string{}
		for a := range spret {
			out = append(out, a)
		}
		sort.Strings(out)
		return out
	}
	// waitFor: collect arrivals until the observation matches the expectation or the settle time is over
	waitFor := func(st *Step) bool {
		deadline := time.Now().Add(settle)
		var matched time.Time
		for {
			pollDone()
			if sameGates(pending, st.Gates) && reflect.DeepEqual(doneSet(), sortedCopy(st.Done)) && reflect.DeepEqual(spretList(), sortedCopy(st.Spret)) {
				// after an environment action keep listening for a moment: a delivery nobody expects (a second worker
				// started by the send, say) needs a goroutine to be scheduled before it shows up
				if st.Op == "grant" || grace == 0 {
					return true
				}
				if matched.IsZero() {
					matched = time.Now()
				} else if time.Since(matched) >= grace {
					return true
				}
			} else {
				matched = time.Time{}
			}
			select {
			case a := <-h.arrive:
				if old, dup := pending[a.g.A]; dup && old != a {
					// two deliveries of one actor parked at the same time: keep the first, remember the second
					h.extra = append(h.extra, a)
					return false
				}
				pending[a.g.A] = a
			case <-time.After(100 * time.Microsecond):
			}
			if time.Now().After(deadline) {
				return false
			}
		}
	}
	diverge := func(i int, what string) {
		if !res.Diverged {
			res.Diverged = true
			res.DivergedAt = i
			res.Divergence = what
		}
	}

	if h.free > 0 {
		// free-running pass: the behaviour's environment actions in the behaviour's order, back to back with an occasional
		// pause, no gates; the failures happen at the deliveries the behaviour names.  The history is judged by the
		// property predicates only (it need not be the behaviour's history)
		res.Diverged = true
		res.DivergedAt = 0
		res.Divergence = "free-running"
	}
	for i := range sc.Steps {
		st := &sc.Steps[i]
		if h.free > 0 && st.Op != "grant" {
			if d := freeDelay(h.free, sc.ID, 1000+i, 2); d > 0 {
				time.Sleep(d)
			}
			pollDone()
		}
		if res.Diverged {
			// unsteered: environment actions are still issued, gates are granted in arrival order
			if st.Op == "grant" {
				continue
			}
		}
		switch st.Op {
		case "spawn":
			name := st.A
			if st.Again {
				if h.registered(name) {
					res.DupSpawns++
				} else {
					res.Respawns++
				}
			}
			dup := st.Again && h.registered(name)
			returned := make(chan struct{})
			go func() {
				e.Spawn(h.producer(name), "a", h.opts(name)...)
				if !dup { // a duplicate spawn returns at once and says nothing about the first one
					spmu.Lock()
					spret[name] = true
					spmu.Unlock()
				}
				close(returned)
			}()
			if h.free > 0 && !dup {
				// free-running: the driver goes on as soon as the id is registered (or after a moment)
				for until := time.Now().Add(2 * time.Millisecond); !h.registered(name) && time.Now().Before(until); {
					runtime.Gosched()
				}
			}
			if dup {
				// the call has to be over before the next operation is issued (it returns at once unless the
				// code wrongly starts a second actor, in which case its Initialized delivery shows up as a gate)
				select {
				case <-returned:
				case <-time.After(2 * time.Second):
				}
			}
		case "send":
			res.Sent[st.A] = append(res.Sent[st.A], st.ID)
			e.Send(h.pids[st.A], userMsg{st.ID})
		case "stop":
			tc := cfg.Toks[st.T]
			if h.free > 0 {
				// free-running: a stop request is about an actor that exists (the behaviours never stop an id that was
				// not spawned yet); wait for its first incarnation to be created, skip the request if that never happens
				born := false
				for until := time.Now().Add(200 * time.Millisecond); time.Now().Before(until); {
					h.mu.Lock()
					born = h.incs[tc.Target] > 0
					h.mu.Unlock()
					if born {
						break
					}
					time.Sleep(50 * time.Microsecond)
				}
				if !born {
					continue
				}
			}
			res.SentBefore[st.T] = append([]int{}, res.Sent[tc.Target]...)
			var cx context.Context
			if tc.Graceful && sc.ID%4 == 3 && h.free == 0 && h.registered(tc.Target) {
				// two impatient callers first: they ask for the same graceful stop with contexts of their own and give
				// up at once (in the order they came).  Their requests stand (the first pill is the one acted on, the
				// behaviour's own request follows immediately), and their giving up is nobody else's business: the
				// behaviour's caller is still signalled when the actor has stopped
				var quit []context.CancelFunc
				for k := 0; k < 2; k++ {
					ictx, icancel := context.WithCancel(context.Background())
					e.PoisonCtx(ictx, h.pids[tc.Target])
					quit = append(quit, icancel)
				}
				for _, c := range quit {
					c()
				}
			}
			if tc.Graceful && sc.ID%2 == 1 {
				// PoisonCtx with a context of the caller's: it is cancelled at the end of the scenario, once the stop
				// has been signalled (a caller's usual "defer cancel()"), which must change nothing
				pctx, pcancel := context.WithCancel(context.Background())
				parents[st.T] = pcancel
				cx = e.PoisonCtx(pctx, h.pids[tc.Target])
			} else if tc.Graceful {
				cx = e.Poison(h.pids[tc.Target])
			} else {
				cx = e.Stop(h.pids[tc.Target])
			}
			h.mu.Lock()
			h.ctxs[st.T] = cx
			n := len(h.log)
			h.mu.Unlock()
			res.Issued = append(res.Issued, st.T)
			if cx.Err() != nil {
				res.Done[st.T] = DoneRec{At: n, Reg: h.stillRegistered(tc.Target), Imm: true}
			}
		case "grant":
			a, ok := pending[st.A]
			want := Gate{st.A, st.Inc, st.Kind, st.ID}
			if !ok || a.g != want {
				diverge(i, fmt.Sprintf("step %d: gate %v expected, pending %v", i, want, gatesOf(pending)))
				continue
			}
			delete(pending, st.A)
			a.release(grant{crash: st.Crash})
		}
		if h.free > 0 {
			continue
		}
		if res.Diverged {
			h.drainUnsteered(pending, pollDone)
			continue
		}
		if !waitFor(st) {
			diverge(i, fmt.Sprintf("after step %d (%s %s%s): want gates %v done %v spret %v, got gates %v done %v spret %v",
				i, st.Op, st.A, st.T, st.Gates, st.Done, st.Spret, gatesOf(pending), doneSet(), spretList()))
			h.drainUnsteered(pending, pollDone)
		}
	}
	// final settle: wait for the events the model predicts (bounded)
	deadline := time.Now().Add(settle)
	for h.free == 0 && int(h.evCount.Load()) < sc.NEvents && time.Now().Before(deadline) {
		time.Sleep(200 * time.Microsecond)
	}
	// a delivery the behaviour does not predict may still be on its way (a goroutine has to be scheduled first): every
	// granted delivery has returned, then watch for a moment; what arrives unasked for ends the steering and is logged
	if !res.Diverged && len(sc.Steps) > 0 {
		last := &sc.Steps[len(sc.Steps)-1]
		until := time.Now().Add(settle)
		for time.Now().Before(until) {
			h.mu.Lock()
			busy := 0
			for n, k := range h.inside {
				if _, parked := pending[n]; parked {
					k--
				}
				busy += k
			}
			h.mu.Unlock()
			if busy <= 0 {
				break
			}
			time.Sleep(100 * time.Microsecond)
		}
		watch := time.Now().Add(2 * grace)
	lastWatch:
		for {
			select {
			case a := <-h.arrive:
				if old, dup := pending[a.g.A]; dup && old != a {
					h.extra = append(h.extra, a)
				} else {
					pending[a.g.A] = a
				}
			case <-time.After(100 * time.Microsecond):
				if time.Now().After(watch) {
					break lastWatch
				}
			}
		}
		if !sameGates(pending, last.Gates) || len(h.extra) > 0 {
			diverge(len(sc.Steps), fmt.Sprintf("after the last step: want gates %v, got gates %v (+%d)", last.Gates, gatesOf(pending), len(h.extra)))
		}
	}
	settled := true
	if res.Diverged || sc.Racy {
		// unsteered, or steered through a race the code may have resolved the other way: nothing tells us when the
		// engine is done; it is done when no goroutine of the process can move on its own any more (bounded: a run
		// that does not get there is not judged "quiet")
		if res.Diverged && h.free == 0 {
			h.drainUnsteered(pending, pollDone)
		}
		settled = false
		until := time.Now().Add(5 * settle)
		for time.Now().Before(until) {
			if !engineQuiet(100 * time.Millisecond) {
				continue
			}
			pollDone()
			if h.free > 0 {
				settled = true
				break
			}
			if res.Diverged {
				h.drainUnsteered(pending, pollDone)
				if len(pending) == 0 && len(h.extra) == 0 && engineQuiet(20*time.Millisecond) {
					settled = true
					break
				}
				continue
			}
			// steered through a race: whatever is parked now is all there is
			more := false
		collect:
			for {
				select {
				case a := <-h.arrive:
					more = true
					if old, dup := pending[a.g.A]; dup && old != a {
						h.extra = append(h.extra, a)
					} else {
						pending[a.g.A] = a
					}
				default:
					break collect
				}
			}
			if last := &sc.Steps[len(sc.Steps)-1]; !sameGates(pending, last.Gates) || len(h.extra) > 0 {
				diverge(len(sc.Steps), fmt.Sprintf("after the last step: want gates %v, got gates %v (+%d)", last.Gates, gatesOf(pending), len(h.extra)))
				continue
			}
			if !more {
				settled = true
				break
			}
		}
	}
	// every granted delivery has returned (only parked ones are still inside Receive)
	for time.Now().Before(deadline) {
		h.mu.Lock()
		busy := 0
		for n, k := range h.inside {
			if _, parked := pending[n]; parked {
				k--
			}
			busy += k
		}
		h.mu.Unlock()
		if busy <= 0 {
			break
		}
		time.Sleep(100 * time.Microsecond)
	}
	pollDone()
	// containment witness
	if r, err := e.Request(witness, ping{}, 2*time.Second).Result(); err == nil {
		_, res.Witness = r.(pong)
	}
	// ... and is resolvable under its kind and id like any live actor
	if p := e.Registry.GetPID("a", wroot+"w/1"); p == nil || p.ID != witness.ID {
		res.Witness = false
	}
	res.Pending = gatesOf(pending)
	res.Quiet = len(pending) == 0 && settled
	h.mu.Lock()
	res.Log = append([]Entry{}, h.log...)
	res.Events = append([]Event{}, h.events...)
	res.Overlap = h.overlap
	h.mu.Unlock()
	if res.Events == nil {
		res.Events = []Event{}
	}
	if res.Log == nil {
		res.Log = []Entry{}
	}
	if res.Issued == nil {
		res.Issued = []string{}
	}
	released := false
	for t, cancel := range parents {
		if d, ok := res.Done[t]; ok && d.At >= 0 {
			cancel()
			released = true
		}
	}
	if released {
		engineQuiet(50 * time.Millisecond)
	}
	for n := range cfg.Actors {
		res.Reg[n] = h.registered(n)
	}
	res.Spret = spretList()
	h.mu.Lock()
	res.DupSpawns += h.dupKids
	res.Respawns += h.reKids
	h.mu.Unlock()
	res.Producers = map[string]int{}
	h.mu.Lock()
	for n := range cfg.Actors {
		res.Producers[n] = h.incs[n]
	}
	h.mu.Unlock()
	// release whatever is still parked so goroutines do not pile up
	h.over.Store(true)
	close(crowdRelease)
	for _, a := range pending {
		a.reply <- grant{abandon: true}
	}
	for _, a := range h.extra {
		a.reply <- grant{abandon: true}
	}
	go func() {
		// late arrivals are sent away; after a quiet while this goroutine ends so that the scenario's engine can be
		// collected (thousands of scenarios run in one process)
		for {
			select {
			case a := <-h.arrive:
				a.reply <- grant{abandon: true}
			case <-time.After(3 * time.Second):
				return
			}
		}
	}()
	return res
}

// goroutinesIdle: no goroutine of this process other than the caller can move on its own -- every one of them is
// blocked on a channel, a select, a lock or a condition (parked deliveries, bystanders, helpers of this harness), none
// is running, runnable, sleeping or in a system call.  Read off the states the runtime reports; independent of how
// much processor time the process gets.
func goroutinesIdle() bool {
	buf := make([]byte, 1<<20)
	for {
		n := runtime.Stack(buf, true)
		if n < len(buf) {
			buf = buf[:n]
			break
		}
		buf = make([]byte, 2*len(buf))
	}
	first := true
	for _, line := range strings.Split(string(buf), "\n") {
		if !strings.HasPrefix(line, "goroutine ") {
			continue
		}
		i, j := strings.IndexByte(line, '['), strings.IndexByte(line, ']')
		if i < 0 || j < i {
			continue
		}
		if first { // the calling goroutine comes first
			first = false
			continue
		}
		st := line[i+1 : j]
		if k := strings.IndexByte(st, ','); k >= 0 {
			st = st[:k]
		}
		switch st {
		case "chan receive", "chan send", "select", "select (no cases)", "chan receive (nil chan)", "chan send (nil chan)",
			"semacquire", "sync.Mutex.Lock", "sync.RWMutex.Lock", "sync.RWMutex.RLock", "sync.Cond.Wait", "sync.WaitGroup.Wait":
		default:
			return false
		}
	}
	return true
}

// engineQuiet: two idle observations a moment apart (a timer of the code under test that has no goroutine yet -- a
// restart delay implemented with time.AfterFunc, say -- fires in between), bounded by limit
func engineQuiet(limit time.Duration) bool {
	deadline := time.Now().Add(limit)
	for time.Now().Before(deadline) {
		if goroutinesIdle() {
			time.Sleep(2 * time.Millisecond)
			if goroutinesIdle() {
				return true
			}
			continue
		}
		time.Sleep(200 * time.Microsecond)
	}
	return false
}

// drainUnsteered grants gates in arrival order (no faults) until nothing can arrive any more (bounded).
func (h *harness) drainUnsteered(pending map[string]*arrival, poll func()) {
	deadline := time.Now().Add(5 * settle)
	for {
		for k, a := range pending {
			delete(pending, k)
			a.release(grant{})
		}
		for _, a := range h.extra {
			a.release(grant{})
		}
		h.extra = nil
		select {
		case a := <-h.arrive:
			pending[a.g.A] = a
			continue
		default:
		}
		if engineQuiet(20*time.Millisecond) || time.Now().After(deadline) {
			select {
			case a := <-h.arrive:
				pending[a.g.A] = a
				continue
			default:
			}
			poll()
			return
		}
	}
}

// freeDelay: a pseudo-random pause (0 in most cases) that depends only on the pass, the scenario and the position
func freeDelay(pass, scen, pos, oneIn int) time.Duration {
	x := uint64(pass)*0x9E3779B97F4A7C15 ^ uint64(scen)*0xBF58476D1CE4E5B9 ^ uint64(pos)*0x94D049BB133111EB
	x ^= x >> 31
	x *= 0xD6E8FEB86659FD93
	x ^= x >> 29
	if x%uint64(oneIn) != 0 {
		return 0
	}
	return time.Duration((x>>8)%200) * time.Microsecond
}

func sortedCopy(s []string) []string {
	out := append([]string{}, s...)
	sort.Strings(out)
	return out
}

func main() {
	in := flag.String("in", "", "scenario file: first line config json, then one scenario per line")
	out := flag.String("out", "", "result file (ndjson)")
	progress := flag.String("progress", "", "file receiving the id of the scenario being run")
	settleMs := flag.Int("settle-ms", 400, "settle timeout")
	graceUs := flag.Int("grace-us", 300, "after an environment action, how long to watch for deliveries the behaviour does not predict")
	only := flag.Int("only", -1, "run only the scenario with this id")
	from := flag.Int("from", 0, "skip scenarios with a smaller id")
	free := flag.Int("free", 0, "> 0: free-running pass with this number (no gates; pauses derived from it)")
	every := flag.Int("every", 1, "run only every n-th scenario (free-running passes of the quick tier)")
	flag.Parse()
	if os.Getenv("VERIF_SLOG") == "" {
		slog.SetDefault(slog.New(slog.NewTextHandler(io.Discard, nil)))
	}
	settle = time.Duration(*settleMs) * time.Millisecond
	grace = time.Duration(*graceUs) * time.Microsecond

	f, err := os.Open(*in)
	if err != nil {
		fmt.Fprintln(os.Stderr, err)
		os.Exit(2)
	}
	defer f.Close()
	rd := bufio.NewReaderSize(f, 1<<20)
	line, err := rd.ReadBytes('\n')
	if err != nil {
		fmt.Fprintln(os.Stderr, "config:", err)
		os.Exit(2)
	}
	var cfg Config
	if err := json.Unmarshal(line, &cfg); err != nil {
		fmt.Fprintln(os.Stderr, "config:", err)
		os.Exit(2)
	}
	of, err := os.Create(*out)
	if err != nil {
		fmt.Fprintln(os.Stderr, err)
		os.Exit(2)
	}
	defer of.Close()
	w := bufio.NewWriter(of)
	defer w.Flush()
	enc := json.NewEncoder(w)
	n := 0
	for {
		line, err := rd.ReadBytes('\n')
		if len(line) > 1 {
			var sc Scenario
			if e := json.Unmarshal(line, &sc); e != nil {
				fmt.Fprintln(os.Stderr, "scenario:", e)
				os.Exit(2)
			}
			if (*only < 0 || sc.ID == *only) && sc.ID >= *from && (*only >= 0 || (sc.ID+*free)%*every == 0) {
				if *progress != "" {
					_ = os.WriteFile(*progress, []byte(fmt.Sprint(sc.ID)), 0o644)
				}
				res := runScenario(cfg, sc, *free)
				_ = enc.Encode(res)
				w.Flush()
				n++
			}
		}
		if err != nil {
			break
		}
	}
	fmt.Fprintf(os.Stderr, "ran %d scenarios\n", n)
}
