// routetable runs the cases enumerated by TLC from specs/Route.tla on a real engine (B-table): a message is
// injected through Engine.Send / SendWithSender / Request and travels from actor to actor as the case's script says
// (Context.Forward, Context.Send, Context.Respond); what every actor received -- which message, from which sender, in
// which order -- the dead letters and the value returned by Result() are compared with what TLC computed.
package main

import (
	"bufio"
	"encoding/json"
	"flag"
	"fmt"
	"io"
	"log/slog"
	"os"
	"sort"
	"strings"
	"sync"
	"time"

	"github.com/anthdm/hollywood/actor"
)

type Instr struct {
	K  string `json:"k"`
	To string `json:"to"`
}

type Entry struct {
	API  string `json:"api"`
	From string `json:"from"`
	To   string `json:"to"`
}

type Case struct {
	Entry  Entry    `json:"entry"`
	Script []Instr  `json:"script"`
	Seen   [][3]any `json:"seen"`   // <<actor, sender, gen>>
	Dead   [][3]any `json:"dead"`   // <<target, sender, gen>>
	Result int      `json:"result"` // generation of the message Result() returns, -1: none
}

type Failure struct {
	Index int    `json:"index"`
	What  string `json:"what"`
	Case  Case   `json:"case"`
}

type routeMsg struct {
	Case int
	Gen  int
}

type rig struct {
	e     *actor.Engine
	pids  map[string]*actor.PID
	mu    sync.Mutex
	cur   int
	hop   int
	c     *Case
	seen  [][3]any
	dead  [][3]any
	extra []string
	resp  *actor.PID
}

func (r *rig) name(p *actor.PID) string {
	if p == nil {
		return "nil"
	}
	for n, q := range r.pids {
		if q.ID == p.ID && q.Address == p.Address {
			return n
		}
	}
	if r.resp != nil && p.ID == r.resp.ID {
		return "resp"
	}
	return p.Address + "/" + p.ID
}

func (r *rig) receiver(self string) actor.Producer {
	return func() actor.Receiver {
		return recv{r, self}
	}
}

type recv struct {
	r    *rig
	self string
}

func (x recv) Receive(c *actor.Context) {
	m, ok := c.Message().(routeMsg)
	if !ok {
		return
	}
	r := x.r
	r.mu.Lock()
	if m.Case != r.cur {
		r.extra = append(r.extra, fmt.Sprintf("%s received a message of case %d while case %d runs", x.self, m.Case, r.cur))
		r.mu.Unlock()
		return
	}
	if c.PID().ID != r.pids[x.self].ID {
		r.extra = append(r.extra, fmt.Sprintf("%s handles a message with Context.PID() = %s", x.self, c.PID().ID))
	}
	r.seen = append(r.seen, [3]any{x.self, r.name(c.Sender()), m.Gen})
	hop := r.hop
	r.hop++
	var in *Instr
	if hop < len(r.c.Script) {
		in = &r.c.Script[hop]
	}
	r.mu.Unlock()
	if in == nil {
		return
	}
	switch in.K {
	case "fwd":
		c.Forward(r.pids[in.To])
	case "send":
		c.Send(r.pids[in.To], routeMsg{m.Case, m.Gen + 1})
	case "resp":
		c.Respond(routeMsg{m.Case, m.Gen + 1})
	}
}

func newRig(actors []string) *rig {
	e, err := actor.NewEngine(actor.NewEngineConfig())
	if err != nil {
		panic(err)
	}
	r := &rig{e: e, pids: map[string]*actor.PID{}}
	// every actor sits behind a middleware that looks at the delivery before and after the receiver ran: message and
	// sender of a delivery are what they are for everybody in the chain, whatever the receiver does with the context
	audit := func(self string) actor.MiddlewareFunc {
		return func(next actor.ReceiveFunc) actor.ReceiveFunc {
			return func(c *actor.Context) {
				m0, s0 := c.Message(), c.Sender()
				next(c)
				if _, ok := m0.(routeMsg); !ok {
					return
				}
				if m1, s1 := c.Message(), c.Sender(); m1 != m0 || s1 != s0 {
					r.mu.Lock()
					r.extra = append(r.extra, fmt.Sprintf("a middleware of %s saw message %v from %s before the receiver ran and message %v from %s afterwards", self, m0, r.name(s0), m1, r.name(s1)))
					r.mu.Unlock()
				}
			}
		}
	}
	for _, a := range actors {
		r.pids[a] = e.Spawn(r.receiver(a), "route", actor.WithID(a), actor.WithMiddleware(audit(a)))
	}
	r.pids["gone"] = actor.NewPID(e.Address(), "route/gone")
	mon := e.SpawnFunc(func(c *actor.Context) {
		if d, ok := c.Message().(actor.DeadLetterEvent); ok {
			if m, ok := d.Message.(routeMsg); ok {
				r.mu.Lock()
				if m.Case == r.cur {
					r.dead = append(r.dead, [3]any{r.name(d.Target), r.name(d.Sender), m.Gen})
				}
				r.mu.Unlock()
			}
		}
	}, "routemon", actor.WithID("m"))
	e.Subscribe(mon)
	// the subscription is in place once a first dead letter has come through
	for k := 0; ; k++ {
		r.mu.Lock()
		r.cur = -1
		n := len(r.dead)
		r.mu.Unlock()
		if n > 0 {
			break
		}
		e.Send(r.pids["gone"], routeMsg{-1, 0})
		time.Sleep(time.Millisecond)
		if k > 5000 {
			panic("monitor never sees a dead letter")
		}
	}
	return r
}

func norm(x [][3]any) string {
	var sb strings.Builder
	for _, t := range x {
		fmt.Fprintf(&sb, "<%v %v %v>", t[0], t[1], fmt.Sprint(t[2]))
	}
	return sb.String()
}

func (r *rig) run(idx int, c *Case) string {
	r.mu.Lock()
	r.cur, r.hop, r.c = idx, 0, c
	r.seen, r.dead, r.extra, r.resp = nil, nil, nil, nil
	r.mu.Unlock()
	msg := routeMsg{idx, 0}
	target := r.pids[c.Entry.To]
	got := -1
	switch c.Entry.API {
	case "send":
		r.e.Send(target, msg)
	case "sendws":
		var s *actor.PID
		if c.Entry.From != "nil" {
			s = r.pids[c.Entry.From]
		}
		r.e.SendWithSender(target, msg, s)
	case "request":
		timeout := 40 * time.Millisecond
		if c.Result >= 0 {
			timeout = 5 * time.Second
		}
		resp := r.e.Request(target, msg, timeout)
		r.mu.Lock()
		r.resp = resp.PID()
		r.mu.Unlock()
		v, err := resp.Result()
		if err == nil {
			if m, ok := v.(routeMsg); ok && m.Case == idx {
				got = m.Gen
			} else {
				return fmt.Sprintf("Result() returned %v", v)
			}
		}
	}
	// wait for what the model predicts, then a moment for anything it does not predict
	deadline := time.Now().Add(3 * time.Second)
	for {
		r.mu.Lock()
		ok := len(r.seen) >= len(c.Seen) && len(r.dead) >= len(c.Dead)
		r.mu.Unlock()
		if ok || time.Now().After(deadline) {
			break
		}
		time.Sleep(20 * time.Microsecond)
	}
	time.Sleep(150 * time.Microsecond)
	r.mu.Lock()
	defer r.mu.Unlock()
	if len(r.extra) > 0 {
		return r.extra[0]
	}
	if norm(r.seen) != norm(c.Seen) {
		return fmt.Sprintf("deliveries <actor sender message> were %s, expected %s", norm(r.seen), norm(c.Seen))
	}
	if norm(r.dead) != norm(c.Dead) {
		return fmt.Sprintf("dead letters <target sender message> were %s, expected %s", norm(r.dead), norm(c.Dead))
	}
	if got != c.Result {
		return fmt.Sprintf("Result() returned message %d, expected %d (-1: a timeout)", got, c.Result)
	}
	return ""
}

func main() {
	in := flag.String("cases", "", "ndjson file of cases exported by TLC")
	workers := flag.Int("workers", 8, "")
	actors := flag.String("actors", "a,b", "")
	maxFail := flag.Int("max-failures", 10, "")
	flag.Parse()
	slog.SetDefault(slog.New(slog.NewTextHandler(io.Discard, nil)))
	f, err := os.Open(*in)
	if err != nil {
		fmt.Fprintln(os.Stderr, err)
		os.Exit(2)
	}
	defer f.Close()
	var cases []Case
	rd := bufio.NewReaderSize(f, 1<<20)
	for {
		line, err := rd.ReadBytes('\n')
		if len(line) > 1 {
			var c Case
			if e := json.Unmarshal(line, &c); e != nil {
				fmt.Fprintln(os.Stderr, "case:", e)
				os.Exit(2)
			}
			cases = append(cases, c)
		}
		if err != nil {
			break
		}
	}
	type report struct {
		Cases    int       `json:"cases"`
		Hops     int       `json:"hops"`
		Failures []Failure `json:"failures"`
	}
	rep := report{}
	var mu sync.Mutex
	var wg sync.WaitGroup
	idx := make(chan int)
	for w := 0; w < *workers; w++ {
		wg.Add(1)
		go func() {
			defer wg.Done()
			r := newRig(strings.Split(*actors, ","))
			for i := range idx {
				what := r.run(i, &cases[i])
				mu.Lock()
				rep.Cases++
				rep.Hops += len(cases[i].Seen)
				if what != "" {
					rep.Failures = append(rep.Failures, Failure{i, what, cases[i]})
				}
				mu.Unlock()
			}
		}()
	}
	for i := range cases {
		mu.Lock()
		stop := len(rep.Failures) >= *maxFail
		mu.Unlock()
		if stop {
			break
		}
		idx <- i
	}
	close(idx)
	wg.Wait()
	sort.Slice(rep.Failures, func(i, j int) bool { return rep.Failures[i].Index < rep.Failures[j].Index })
	json.NewEncoder(os.Stdout).Encode(rep)
	if len(rep.Failures) > 0 {
		os.Exit(1)
	}
}
