// shimgen produces a "shimmed" copy of one Go source file of the repository:
//   - selected imports are redirected to gate-instrumented packages with the same API
//     (sync/atomic -> verifshim/atomic, sync -> verifshim/sync, ringbuffer -> verifshim/ring),
//   - every `go f(x)` statement becomes `verifsched.Go(func() { f(x) })`,
//   - named integer constants can be overridden (messageBatchSize=2) so that TLC-sized
//     instances cross a batch boundary.
// The copy is fed to `go build -overlay`; /repo itself is never modified, and whatever the
// working tree contains (including a mutation) is what gets instrumented.
// Edits are applied to the source text at AST positions, so formatting and comments survive.
package main

import (
	"encoding/json"
	"flag"
	"fmt"
	"go/ast"
	"go/parser"
	"go/token"
	"os"
	"sort"
	"strconv"
	"strings"
)

type edit struct {
	start, end int
	text       string
}

func main() {
	in := flag.String("in", "", "input .go file")
	out := flag.String("out", "", "output file")
	imports := flag.String("imports", "", "old=new,old=new import redirections")
	consts := flag.String("consts", "", "name=value,name=value constant overrides")
	schedPkg := flag.String("sched", "github.com/anthdm/hollywood/verifshim/sched", "scheduler package")
	flag.Parse()

	src, err := os.ReadFile(*in)
	if err != nil {
		fail(err)
	}
	fset := token.NewFileSet()
	f, err := parser.ParseFile(fset, *in, src, parser.ParseComments)
	if err != nil {
		fail(err)
	}
	off := func(p token.Pos) int { return fset.Position(p).Offset }

	imap := map[string]string{}
	for _, kv := range strings.Split(*imports, ",") {
		if kv == "" {
			continue
		}
		p := strings.SplitN(kv, "=", 2)
		imap[p[0]] = p[1]
	}
	cmap := map[string]string{}
	for _, kv := range strings.Split(*consts, ",") {
		if kv == "" {
			continue
		}
		p := strings.SplitN(kv, "=", 2)
		cmap[p[0]] = p[1]
	}

	var edits []edit
	report := map[string]any{}
	redirected := []string{}
	for _, spec := range f.Imports {
		path, _ := strconv.Unquote(spec.Path.Value)
		np, ok := imap[path]
		if !ok {
			continue
		}
		name := path[strings.LastIndex(path, "/")+1:]
		if spec.Name != nil {
			name = spec.Name.Name
			edits = append(edits, edit{off(spec.Name.Pos()), off(spec.Path.End()), fmt.Sprintf("%s %q", name, np)})
		} else {
			edits = append(edits, edit{off(spec.Path.Pos()), off(spec.Path.End()), fmt.Sprintf("%s %q", name, np)})
		}
		redirected = append(redirected, path)
	}
	report["imports"] = redirected

	gos := 0
	constsDone := []string{}
	ast.Inspect(f, func(n ast.Node) bool {
		switch x := n.(type) {
		case *ast.GoStmt:
			edits = append(edits, edit{off(x.Go), off(x.Call.Pos()), "verifsched.Go(func() { "})
			edits = append(edits, edit{off(x.Call.End()), off(x.Call.End()), " })"})
			gos++
		case *ast.ValueSpec:
			for i, nm := range x.Names {
				if v, ok := cmap[nm.Name]; ok && i < len(x.Values) {
					edits = append(edits, edit{off(x.Values[i].Pos()), off(x.Values[i].End()), v})
					constsDone = append(constsDone, nm.Name)
				}
			}
		}
		return true
	})
	report["go_stmts"] = gos
	report["consts"] = constsDone
	if gos > 0 {
		// add the scheduler import right after the package clause
		p := off(f.Name.End())
		edits = append(edits, edit{p, p, fmt.Sprintf("\n\nimport verifsched %q\n", *schedPkg)})
	}

	sort.SliceStable(edits, func(i, j int) bool { return edits[i].start > edits[j].start })
	b := src
	for _, e := range edits {
		b = append(append(append([]byte{}, b[:e.start]...), e.text...), b[e.end:]...)
	}
	// sanity: the result must parse
	if _, err := parser.ParseFile(token.NewFileSet(), *out, b, 0); err != nil {
		fail(fmt.Errorf("shimmed copy does not parse: %w", err))
	}
	if err := os.WriteFile(*out, b, 0o644); err != nil {
		fail(err)
	}
	_ = json.NewEncoder(os.Stdout).Encode(report)
}

func fail(err error) {
	fmt.Fprintln(os.Stderr, "shimgen:", err)
	os.Exit(2)
}
