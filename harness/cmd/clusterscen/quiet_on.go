//go:build verifquiet

package main

import (
	"time"

	"github.com/anthdm/hollywood/actor"
)

// quietBarrier waits until the actors whose ids start with the given prefixes have handled everything sent to them so far
// (inbox empty and no worker running, observed twice)
func quietBarrier(e *actor.Engine, prefixes ...string) {
	deadline := time.Now().Add(5 * time.Second)
	for _, p := range prefixes {
		for ok := 0; ok < 2 && time.Now().Before(deadline); {
			if actor.VerifQuiet(e, p) {
				ok++
			} else {
				ok = 0
			}
			time.Sleep(100 * time.Microsecond)
		}
	}
}
