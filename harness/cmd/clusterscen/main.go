// clusterscen replays behaviours of specs/ClusterAgent.tla on an in-memory cluster (B-scenario):
// one real actor.Engine + cluster.Cluster (real Agent) per node, a provider that does nothing (the
// driver plays the provider and hands the membership snapshots to the agent) and an actor.Remoter
// that captures outbound messages in one FIFO per (source node, destination address).  The driver
// delivers the captured agent-to-agent messages in the behaviour's order; ActivationRequest /
// ActivationResponse round trips are passed on at once (the activating agent blocks on them).
// After every step the API-visible state of every current member (Members, HasKind,
// GetActiveByID, Registry.GetPID, events published since the previous step) is compared with the
// state TLC computed.  Only public API is used.
package main

import (
	"bufio"
	"encoding/json"
	"flag"
	"fmt"
	"io"
	"log/slog"
	"os"
	"sort"
	"strings"
	"sync"
	"time"

	"github.com/anthdm/hollywood/actor"
	"github.com/anthdm/hollywood/cluster"
)

// ------------------------------------------------------------------ input

type Config struct {
	Nodes   []string            `json:"nodes"`
	Ghosts  []string            `json:"ghosts"`
	KindsOf map[string][]string `json:"kindsOf"`
	Ids     [][2]string         `json:"ids"`   // every (kind, id) the behaviours may activate / spawn
	Kinds   []string            `json:"kinds"` // kinds asked through HasKind
	Up      []string            `json:"up"`    // members at the start
	// the id "bulk" of a behaviour stands for a block of Bulk actors (ids bulk0000, bulk0001, ...): every operation on
	// it is carried out for each of them, every message about it stands for the block's messages, and a node "knows
	// bulk" iff it knows all of them (on the same host)
	Bulk int `json:"bulk"`
	// provider mode (C20): node 0 runs the real self-managed provider; the steps are its inputs
	Provider bool `json:"provider"`
}

type PidJ struct {
	H string `json:"h"`
	K string `json:"k"`
	I string `json:"i"`
}

type EvJ struct {
	E string `json:"e"`
	N string `json:"n"`
	M string `json:"m"`
}

type NodeState struct {
	Members   []string    `json:"members"`
	Kinds     []string    `json:"kinds"`
	Activated []PidJ      `json:"activated"`
	Registry  [][2]string `json:"registry"`
}

type Step struct {
	Act    string               `json:"act"`
	N      string               `json:"n,omitempty"`
	S      []string             `json:"s,omitempty"`
	Dup    bool                 `json:"dup,omitempty"`
	K      string               `json:"k,omitempty"`
	I      string               `json:"i,omitempty"`
	M      string               `json:"m,omitempty"`
	P      *PidJ                `json:"p,omitempty"`
	Src    string               `json:"src,omitempty"`
	Dst    string               `json:"dst,omitempty"`
	Ret    string               `json:"ret,omitempty"`
	Up     []string             `json:"up"`
	State  map[string]NodeState `json:"state"`
	Events []EvJ                `json:"events"`
	// provider mode
	L       []string `json:"l,omitempty"`       // member list of a Members message
	Addr    string   `json:"addr,omitempty"`    // member whose address is reported unreachable ("X": nobody's)
	Reply   []string `json:"reply,omitempty"`   // member list the handshake is answered with
	Members []string `json:"members,omitempty"` // the provider's member list after the step
	Alt     bool              `json:"alt,omitempty"`   // the handshaking member introduces itself under its second address
	Hosts   map[string]string `json:"hosts,omitempty"` // member -> the address name it is listed with after the step
}

type Scenario struct {
	ID    int    `json:"id"`
	Steps []Step `json:"steps"`
}

type Failure struct {
	Scenario int      `json:"scenario"`
	Step     int      `json:"step"`
	What     string   `json:"what"`
	Steps    []string `json:"steps"`
}

// ------------------------------------------------------------------ in-memory network

type packet struct {
	target *actor.PID
	msg    any
	sender *actor.PID
}

type network struct {
	mu     sync.Mutex
	queues map[string][]packet // "src>dstAddr"
	nodes  map[string]*node    // by address
}

type fakeRemote struct {
	addr string
	name string
	net  *network
}

func (r *fakeRemote) Address() string             { return r.addr }
func (r *fakeRemote) Start(e *actor.Engine) error { return nil }
func (r *fakeRemote) Stop() *sync.WaitGroup       { return &sync.WaitGroup{} }
func (r *fakeRemote) Send(pid *actor.PID, msg any, sender *actor.PID) {
	switch msg.(type) {
	case *cluster.ActivationRequest, *cluster.ActivationResponse:
		// the activating agent blocks on this round trip: pass it on at once
		r.net.mu.Lock()
		dst := r.net.nodes[pid.Address]
		r.net.mu.Unlock()
		if dst != nil {
			dst.e.SendLocal(pid, msg, sender)
		}
		return
	}
	r.net.mu.Lock()
	k := r.name + ">" + pid.Address
	r.net.queues[k] = append(r.net.queues[k], packet{pid, msg, sender})
	r.net.mu.Unlock()
}

type node struct {
	name string
	addr string
	e    *actor.Engine
	c    *cluster.Cluster
	mu   sync.Mutex
	evs  []EvJ
	mark chan int
	want string // member the select function has to return
	snap [][]string
	dups []bool
}

type marker struct{ N int }
type idle struct{}

func (idle) Receive(*actor.Context) {}

type rig struct {
	cfg   Config
	net   *network
	nodes map[string]*node
	addr  map[string]string
	name  map[string]string // address -> member name
	nmark int
}

func (r *rig) member(name string) *cluster.Member {
	return &cluster.Member{ID: name, Host: r.addr[name], Kinds: append([]string{}, r.cfg.KindsOf[name]...), Region: "default"}
}

func newRig(cfg Config) (*rig, error) {
	r := &rig{cfg: cfg, net: &network{queues: map[string][]packet{}, nodes: map[string]*node{}}, nodes: map[string]*node{}, addr: map[string]string{}, name: map[string]string{}}
	all := append(append([]string{}, cfg.Nodes...), cfg.Ghosts...)
	for i, m := range all {
		r.addr[m] = fmt.Sprintf("127.0.0.1:%d", 41000+i)
		r.name[r.addr[m]] = m
	}
	for i, m := range cfg.Ghosts { // a second address per ghost ("G12": G1 back under its id on a fresh port)
		r.addr[m+"2"] = fmt.Sprintf("127.0.0.1:%d", 41500+i)
	}
	if cfg.Provider {
		// addresses are opaque strings: the peers of the provider scenarios live on IPv6 literals, which differ only
		// behind their last colon
		for i, m := range cfg.Ghosts {
			delete(r.name, r.addr[m])
			r.addr[m] = fmt.Sprintf("[::1]:%d", 41000+len(cfg.Nodes)+i)
			r.name[r.addr[m]] = m
			r.addr[m+"2"] = fmt.Sprintf("[2001:db8::%d]:41500", i+1)
		}
	}
	if g := cfg.Ghosts; !cfg.Provider && len(g) >= 2 {
		// two members on one address (a node that came back under a fresh id next to its stale entry): a member is
		// identified by its id, the host is an attribute
		r.addr[g[len(g)-1]] = r.addr[g[len(g)-2]]
	}
	for _, name := range cfg.Nodes {
		n := &node{name: name, addr: r.addr[name], mark: make(chan int, 64)}
		e, err := actor.NewEngine(actor.NewEngineConfig().WithRemote(&fakeRemote{addr: n.addr, name: name, net: r.net}))
		if err != nil {
			return nil, err
		}
		n.e = e
		stub := func(c *cluster.Cluster) actor.Producer { return func() actor.Receiver { return idle{} } }
		rt := 3 * time.Second
		if !cfg.Provider && len(cfg.Up) == 0 {
			rt = 500 * time.Millisecond // membership mode: some behaviours end with an activation request nobody answers
		}
		ccfg := cluster.NewConfig().WithEngine(e).WithID(name).WithRequestTimeout(rt)
		if !cfg.Provider {
			ccfg = ccfg.WithProvider(stub)
		} else if len(cfg.Ghosts) > 0 {
			// the first peer is also configured as a bootstrap member (the provider greets it when it starts): it is a
			// member like any other afterwards
			g := cfg.Ghosts[0]
			ccfg = ccfg.WithProvider(cluster.NewSelfManagedProvider(cluster.NewSelfManagedConfig().WithBootstrapMember(cluster.MemberAddr{ListenAddr: r.addr[g], ID: g})))
		}
		c, err := cluster.New(ccfg)
		if err != nil {
			return nil, err
		}
		for _, k := range cfg.KindsOf[name] {
			c.RegisterKind(k, func() actor.Receiver { return idle{} }, cluster.NewKindConfig())
		}
		c.Start()
		n.c = c
		mon := e.SpawnFunc(func(ctx *actor.Context) {
			var ev *EvJ
			switch m := ctx.Message().(type) {
			case cluster.MemberJoinEvent:
				ev = &EvJ{"join", name, m.Member.ID}
			case cluster.MemberLeaveEvent:
				ev = &EvJ{"leave", name, m.Member.ID}
			case cluster.ActivationEvent:
				ev = &EvJ{"activation", name, r.name[m.PID.Address]}
			case cluster.DeactivationEvent:
				ev = &EvJ{"deactivation", name, r.name[m.PID.Address]}
			case actor.ActorRestartedEvent:
				if strings.HasPrefix(m.PID.ID, "provider/") {
					ev = &EvJ{"provider-restarted", name, ""}
				}
			case marker:
				n.mark <- m.N
			}
			if ev != nil {
				n.mu.Lock()
				n.evs = append(n.evs, *ev)
				n.mu.Unlock()
			}
		}, "verifmon", actor.WithID(name))
		e.Subscribe(mon)
		r.nodes[name] = n
		r.net.nodes[n.addr] = n
	}
	// initial membership (activation mode): every member's agent gets the snapshot
	if len(cfg.Up) > 0 {
		for _, name := range cfg.Up {
			r.sendSnapshot(r.nodes[name], cfg.Up, false)
		}
		for _, name := range cfg.Up {
			if err := r.settle(r.nodes[name]); err != nil {
				return nil, err
			}
		}
		r.takeEvents()
		// the initial snapshots produce no agent-to-agent traffic (nothing is activated yet)
	}
	return r, nil
}

func (r *rig) sendSnapshot(n *node, s []string, dup bool) {
	var ms []*cluster.Member
	for _, m := range s {
		ms = append(ms, r.member(m))
	}
	if dup && len(ms) > 0 {
		ms = append(ms, r.member(s[len(s)-1]), r.member(s[0]))
	}
	n.e.Send(n.c.PID(), &cluster.Members{Members: ms})
}

// settle: the agent has handled everything sent to it so far and the events it published have reached the monitor
func (r *rig) settle(n *node) error {
	done := make(chan struct{})
	// twice: handling the first request's predecessors may have made the agent send a message to itself (the local copy
	// of a broadcast); that one is in front of the second request
	go func() { n.c.Members(); n.c.Members(); close(done) }()
	select {
	case <-done:
	case <-time.After(5 * time.Second):
		return fmt.Errorf("agent of %s does not answer", n.name)
	}
	r.nmark++
	n.e.BroadcastEvent(marker{r.nmark})
	deadline := time.After(5 * time.Second)
	for {
		select {
		case k := <-n.mark:
			if k == r.nmark {
				return nil
			}
		case <-deadline:
			return fmt.Errorf("event stream of %s does not deliver", n.name)
		}
	}
}

func (r *rig) takeEvents() []EvJ {
	var out []EvJ
	for _, n := range r.nodes {
		n.mu.Lock()
		out = append(out, n.evs...)
		n.evs = nil
		n.mu.Unlock()
	}
	return out
}

func (r *rig) observe(n *node, wantReg map[[2]string]bool) NodeState {
	st := NodeState{Members: []string{}, Kinds: []string{}, Activated: []PidJ{}, Registry: [][2]string{}}
	for _, m := range n.c.Members() {
		st.Members = append(st.Members, m.ID)
	}
	sort.Strings(st.Members)
	for _, k := range r.cfg.Kinds {
		if n.c.HasKind(k) {
			st.Kinds = append(st.Kinds, k)
		}
	}
	for _, id := range r.cfg.Ids {
		hosts := map[string]int{}
		alive := 0
		ex := r.expand(id[1])
		for _, x := range ex {
			full := id[0] + "/" + x
			if pid := n.c.GetActiveByID(full); pid != nil {
				hosts[r.name[pid.Address]]++
			}
			// an actor being poisoned needs a moment to go: wait for the registry to reach what the model says
			deadline := time.Now().Add(2 * time.Second)
			for (n.e.Registry.GetPID(id[0], x) != nil) != wantReg[id] && time.Now().Before(deadline) {
				time.Sleep(200 * time.Microsecond)
			}
			if n.e.Registry.GetPID(id[0], x) != nil {
				alive++
			}
		}
		for h, k := range hosts {
			if k == len(ex) {
				st.Activated = append(st.Activated, PidJ{h, id[0], id[1]})
			} else {
				st.Activated = append(st.Activated, PidJ{h, id[0], fmt.Sprintf("%s(%d of %d)", id[1], k, len(ex))})
			}
		}
		if alive == len(ex) {
			st.Registry = append(st.Registry, id)
		} else if alive > 0 {
			st.Registry = append(st.Registry, [2]string{id[0], fmt.Sprintf("%s(%d of %d)", id[1], alive, len(ex))})
		}
	}
	return st
}

// byKind: GetActiveByKind(k) lists exactly the active actors of kind k (a kind is the first segment of kind/id; ids may
// contain the separator themselves)
func (r *rig) byKind(n *node, want NodeState) string {
	kinds := map[string]bool{}
	for _, id := range r.cfg.Ids {
		kinds[id[0]] = true
	}
	for k := range kinds {
		exp := []string{}
		for _, p := range want.Activated {
			if p.K == k {
				for _, x := range r.expand(p.I) {
					exp = append(exp, k+"/"+x)
				}
			}
		}
		sort.Strings(exp)
		got := []string{}
		for _, pid := range n.c.GetActiveByKind(k) {
			if pid != nil {
				got = append(got, pid.ID)
			}
		}
		sort.Strings(got)
		if fmt.Sprint(got) != fmt.Sprint(exp) {
			if len(got) > 6 || len(exp) > 6 {
				return fmt.Sprintf("GetActiveByKind(%s) lists %d actors, expected %d", k, len(got), len(exp))
			}
			return fmt.Sprintf("GetActiveByKind(%s) lists %v, expected %v", k, got, exp)
		}
	}
	return ""
}

func canon(st NodeState) string {
	a := append([]PidJ{}, st.Activated...)
	sort.Slice(a, func(i, j int) bool { return a[i].K+a[i].I < a[j].K+a[j].I })
	g := append([][2]string{}, st.Registry...)
	sort.Slice(g, func(i, j int) bool { return g[i][0]+g[i][1] < g[j][0]+g[j][1] })
	m := append([]string{}, st.Members...)
	sort.Strings(m)
	k := append([]string{}, st.Kinds...)
	sort.Strings(k)
	return fmt.Sprintf("members=%v kinds=%v activated=%v alive=%v", m, k, a, g)
}

func canonEvents(evs []EvJ) string {
	s := make([]string, 0, len(evs))
	for _, e := range evs {
		s = append(s, e.E+"@"+e.N+":"+e.M)
	}
	sort.Strings(s)
	return strings.Join(s, " ")
}

func describe(st Step) string {
	switch st.Act {
	case "ProviderSnapshot":
		return fmt.Sprintf("snapshot(%s,%v,dup=%v)", st.N, st.S, st.Dup)
	case "HandleMembers":
		return "handleMembers(" + st.N + ")"
	case "ActivateTimeout":
		return fmt.Sprintf("activate-timeout(%s,%s->%s)", st.N, st.K, st.M)
	case "Activate":
		return fmt.Sprintf("activate(%s,%s/%s->%s)=%s", st.N, st.K, st.I, st.M, st.Ret)
	case "Deactivate":
		return fmt.Sprintf("deactivate(%s,%s/%s@%s)", st.N, st.P.K, st.P.I, st.P.H)
	case "ClusterSpawn":
		return fmt.Sprintf("spawn(%s,sp/%s)", st.N, st.I)
	case "Deliver":
		return "deliver(" + st.Src + ">" + st.Dst + ")"
	}
	return st.Act + "(" + st.N + ")"
}

// ---------------------------------------------------------------- provider mode (C20)

const probeAddr = "127.0.0.1:41998"
const unknownAddr = "[::1]:41999"

// handshake sends a Handshake for member m to the provider and returns the member list it is answered with
func (r *rig) handshake(n *node, m string) ([]string, error) {
	ids, _, err := r.handshakeAt(n, m, false)
	return ids, err
}

// hostName: the model's name for a listen address
func (r *rig) hostName(addr string) string {
	for name, a := range r.addr {
		if a == addr {
			return name
		}
	}
	return addr
}

func (r *rig) handshakeAt(n *node, m string, alt bool) ([]string, map[string]string, error) {
	ids, hosts, err := r.handshakeAt0(n, m, alt)
	return ids, hosts, err
}

func (r *rig) handshakeAt0(n *node, m string, alt bool) ([]string, map[string]string, error) {
	sender := actor.NewPID(probeAddr, "provider/probe")
	prov := actor.NewPID(n.addr, "provider/"+n.name)
	mem := r.member(m)
	if alt {
		mem.Host = r.addr[m+"2"]
	}
	n.e.SendWithSender(prov, &cluster.Handshake{Member: mem}, sender)
	deadline := time.Now().Add(3 * time.Second)
	for time.Now().Before(deadline) {
		r.net.mu.Lock()
		k := n.name + ">" + probeAddr
		q := r.net.queues[k]
		var got *cluster.Members
		for len(q) > 0 && got == nil {
			if ms, ok := q[0].msg.(*cluster.Members); ok {
				got = ms
			}
			q = q[1:]
		}
		r.net.queues[k] = q
		r.net.mu.Unlock()
		if got != nil {
			ids := []string{}
			hosts := map[string]string{}
			for _, x := range got.Members {
				ids = append(ids, x.ID)
				hosts[x.ID] = r.hostName(x.Host)
			}
			sort.Strings(ids)
			return ids, hosts, nil
		}
		time.Sleep(200 * time.Microsecond)
	}
	return nil, nil, fmt.Errorf("the provider does not answer the handshake of %s with its member list", m)
}

func runProviderScenario(cfg Config, sc Scenario, probe bool) (fail *Failure) {
	r, err := newRig(cfg)
	names := []string{}
	bad := func(i int, what string) *Failure {
		return &Failure{Scenario: sc.ID, Step: i, What: what, Steps: names}
	}
	if err != nil {
		return bad(-1, "harness: "+err.Error())
	}
	n := r.nodes[cfg.Nodes[0]]
	defer n.c.Stop()
	prov := actor.NewPID(n.addr, "provider/"+n.name)
	// the provider is up once it has told its agent about itself
	for t0 := time.Now(); ; {
		ms := n.c.Members()
		if len(ms) == 1 && ms[0].ID == n.name {
			break
		}
		if time.Since(t0) > 5*time.Second {
			return bad(-1, "harness: the provider does not come up")
		}
		time.Sleep(time.Millisecond)
	}
	for i, st := range sc.Steps {
		want := fmt.Sprint(st.Members)
		switch st.Act {
		case "Handshake":
			names = append(names, fmt.Sprintf("handshake(%s@%s)", st.M, map[bool]string{false: st.M, true: st.M + "2"}[st.Alt]))
			ids, hs, err := r.handshakeAt(n, st.M, st.Alt)
			if err != nil {
				return bad(i, err.Error())
			}
			if fmt.Sprint(ids) != fmt.Sprint(st.Reply) {
				return bad(i, fmt.Sprintf("the handshake of %s is answered with the member list %v, expected %v", st.M, ids, st.Reply))
			}
			for m, h := range st.Hosts {
				if hs[m] != h {
					return bad(i, fmt.Sprintf("the handshake of %s is answered with member %s at address %s, expected %s", st.M, m, hs[m], h))
				}
			}
		case "MembersMsg":
			names = append(names, fmt.Sprintf("members(%v)", st.L))
			var ms []*cluster.Member
			for _, m := range st.L {
				ms = append(ms, r.member(m))
			}
			n.e.Send(prov, &cluster.Members{Members: ms})
		case "Unreachable":
			names = append(names, "unreachable("+st.Addr+")")
			addr := unknownAddr
			if a, ok := r.addr[st.Addr]; ok {
				addr = a
			}
			n.e.BroadcastEvent(actor.RemoteUnreachableEvent{ListenAddr: addr})
			if err := r.settle(n); err != nil { // the event stream has passed it to the provider's event child
				return bad(i, err.Error())
			}
			// event stream -> the provider's event child -> the provider: the report has to be handled before the next input
			// is issued (nothing observable tells when a report that changes nothing has arrived)
			quietBarrier(n.e, "provider/"+n.name)
		}
		// the provider's own list (it answers every handshake with its complete member list) ...
		var ids []string
		var hosts map[string]string
		deadline := time.Now().Add(10 * time.Second)
		for probe {
			ids, hosts, err = r.handshakeAt(n, n.name, false)
			if err != nil {
				return bad(i, err.Error())
			}
			if fmt.Sprint(ids) == want || time.Now().After(deadline) {
				break
			}
			time.Sleep(2 * time.Millisecond)
		}
		if probe && fmt.Sprint(ids) != want {
			return bad(i, fmt.Sprintf("after %s the provider's member list is %v, expected %v", names[len(names)-1], ids, st.Members))
		}
		for m, h := range st.Hosts {
			if !probe {
				break
			}
			if hosts[m] != h {
				return bad(i, fmt.Sprintf("after %s member %s is listed with address %s, expected %s", names[len(names)-1], m, hosts[m], h))
			}
		}
		// ... and what the agent has been told
		var view []string
		deadline = time.Now().Add(10 * time.Second)
		for {
			view = view[:0]
			for _, m := range n.c.Members() {
				view = append(view, m.ID)
			}
			sort.Strings(view)
			if fmt.Sprint(view) == want || time.Now().After(deadline) {
				break
			}
			time.Sleep(2 * time.Millisecond)
		}
		if fmt.Sprint(view) != want {
			return bad(i, fmt.Sprintf("after %s the agent's view is %v, the provider's list %v", names[len(names)-1], view, st.Members))
		}
		_ = r.settle(n)
		for _, e := range r.takeEvents() {
			if e.E == "provider-restarted" {
				return bad(i, "the provider actor crashed and was restarted while handling "+names[len(names)-1])
			}
		}
	}
	return nil
}

const bulkID = "bulk"

// collapse: k identical events (one per actor of the block) stand for the one event of the model
func collapse(evs []EvJ, k int) []EvJ {
	cnt := map[EvJ]int{}
	for _, e := range evs {
		cnt[e]++
	}
	var out []EvJ
	for e, c := range cnt {
		if e.E != "activation" && e.E != "deactivation" { // (in a bulk configuration every actor belongs to the block)
			for ; c > 0; c-- {
				out = append(out, e)
			}
			continue
		}
		for ; c >= k; c -= k {
			out = append(out, e)
		}
		for ; c > 0; c-- {
			out = append(out, EvJ{e.E + "(single)", e.N, e.M})
		}
	}
	return out
}

func (r *rig) expand(id string) []string {
	if id != bulkID || r.cfg.Bulk <= 0 {
		return []string{id}
	}
	out := make([]string, r.cfg.Bulk)
	for k := range out {
		out[k] = fmt.Sprintf("%s%04d", bulkID, k)
	}
	return out
}

func isBulkPID(p *actor.PID) bool {
	if p == nil {
		return false
	}
	i := strings.LastIndex(p.ID, "/")
	return i >= 0 && strings.HasPrefix(p.ID[i+1:], bulkID)
}

// sameBlock: packet b belongs to the block of messages that packet a starts (the model has one message for it)
func sameBlock(a, b packet) bool {
	switch x := a.msg.(type) {
	case *cluster.Activation:
		y, ok := b.msg.(*cluster.Activation)
		return ok && isBulkPID(x.PID) && isBulkPID(y.PID)
	case *cluster.Deactivation:
		y, ok := b.msg.(*cluster.Deactivation)
		return ok && isBulkPID(x.PID) && isBulkPID(y.PID)
	case *cluster.ActorTopology:
		_, ok := b.msg.(*cluster.ActorTopology) // a topology may legitimately travel in several pieces
		return ok
	}
	return false
}

func runScenario(cfg Config, sc Scenario) (fail *Failure) {
	if cfg.Provider {
		// asking the provider for its list is an input too: once with a probing handshake after every step, once leaving
		// the provider alone (only the handshakes of the behaviour itself and the agent's view are looked at)
		if f := runProviderScenario(cfg, sc, true); f != nil {
			return f
		}
		return runProviderScenario(cfg, sc, false)
	}
	r, err := newRig(cfg)
	names := []string{}
	bad := func(i int, what string) *Failure {
		return &Failure{Scenario: sc.ID, Step: i, What: what, Steps: names}
	}
	if err != nil {
		return bad(-1, "harness: "+err.Error())
	}
	up := map[string]bool{}
	for _, n := range cfg.Up {
		up[n] = true
	}
	for i, st := range sc.Steps {
		names = append(names, describe(st))
		touched := []string{}
		switch st.Act {
		case "ProviderSnapshot":
			n := r.nodes[st.N]
			n.snap = append(n.snap, st.S)
			n.dups = append(n.dups, st.Dup)
		case "Join", "Leave":
			// every provider of a (remaining) member reports the new member set
			for _, m := range st.Up {
				n := r.nodes[m]
				n.snap = append(n.snap, st.Up)
				n.dups = append(n.dups, false)
			}
		case "HandleMembers":
			n := r.nodes[st.N]
			if len(n.snap) == 0 {
				return bad(i, "harness: no snapshot pending for "+st.N)
			}
			r.sendSnapshot(n, n.snap[0], n.dups[0])
			n.snap, n.dups = n.snap[1:], n.dups[1:]
			touched = append(touched, st.N)
		case "ActivateTimeout":
			// the select function picks a member that never answers: nil after the request timeout, nothing else changes
			n := r.nodes[st.N]
			want := st.M
			sel := func(d cluster.ActivationDetails) *cluster.Member { return r.member(want) }
			if pid := n.c.Activate(st.K, cluster.NewActivationConfig().WithID("t").WithSelectMemberFunc(sel)); pid != nil {
				return bad(i, fmt.Sprintf("Activate(%s) routed to %s, which never answers, returned %v", st.K, want, pid))
			}
			touched = append(touched, st.N)
		case "Activate":
			n := r.nodes[st.N]
			want := st.M
			sel := func(d cluster.ActivationDetails) *cluster.Member {
				for _, m := range d.Members {
					if m.ID == want {
						return m
					}
				}
				return r.member(want) // a select function is free to ignore the candidates it is offered
			}
			acfg := cluster.NewActivationConfig().WithSelectMemberFunc(sel)
			if sc.ID%2 == 1 {
				// the region is information for the select function, nothing else: where the members say they are does
				// not decide who is capable
				acfg = acfg.WithRegion("mars")
			}
			for _, x := range r.expand(st.I) {
				pid := n.c.Activate(st.K, acfg.WithID(x))
				got := "nil"
				if pid != nil {
					got = r.name[pid.Address]
					if pid.ID != st.K+"/"+x {
						got += "(" + pid.ID + ")"
					}
				}
				if got != st.Ret {
					return bad(i, fmt.Sprintf("Activate(%s/%s) on %s with the select function choosing %s returned %s, expected %s", st.K, x, st.N, st.M, got, st.Ret))
				}
			}
			touched = append(touched, st.N)
			if st.Ret != "nil" && st.Ret != st.N {
				touched = append(touched, st.Ret)
			}
		case "Deactivate":
			n := r.nodes[st.N]
			for _, x := range r.expand(st.P.I) {
				n.c.Deactivate(actor.NewPID(r.addr[st.P.H], st.P.K+"/"+x))
			}
			touched = append(touched, st.N)
		case "ClusterSpawn":
			n := r.nodes[st.N]
			n.c.Spawn(func() actor.Receiver { return idle{} }, "sp", actor.WithID(st.I))
			touched = append(touched, st.N)
		case "Deliver":
			if st.Src != st.Dst { // a message to oneself is in the agent's own inbox already
				r.net.mu.Lock()
				k := st.Src + ">" + r.addr[st.Dst]
				q := r.net.queues[k]
				if len(q) == 0 {
					r.net.mu.Unlock()
					return bad(i, fmt.Sprintf("no message in flight from %s to %s (the model has one)", st.Src, st.Dst))
				}
				cnt := 1
				for cnt < len(q) && sameBlock(q[0], q[cnt]) {
					cnt++
				}
				blk := q[:cnt]
				r.net.queues[k] = q[cnt:]
				r.net.mu.Unlock()
				for _, p := range blk {
					r.nodes[st.Dst].e.SendLocal(p.target, p.msg, p.sender)
				}
			}
			touched = append(touched, st.Dst)
		default:
			return bad(i, "harness: unknown action "+st.Act)
		}
		up = map[string]bool{}
		for _, m := range st.Up {
			up[m] = true
		}
		for _, t := range touched {
			if err := r.settle(r.nodes[t]); err != nil {
				return bad(i, err.Error())
			}
		}
		// compare every current member with the model
		for _, name := range cfg.Nodes {
			if !up[name] && len(cfg.Up) > 0 {
				continue
			}
			want, ok := st.State[name]
			if !ok {
				continue
			}
			wr := map[[2]string]bool{}
			for _, id := range want.Registry {
				wr[id] = true
			}
			got := r.observe(r.nodes[name], wr)
			if canon(got) != canon(want) {
				return bad(i, fmt.Sprintf("after %s node %s shows %s, expected %s", describe(st), name, canon(got), canon(want)))
			}
			if what := r.byKind(r.nodes[name], want); what != "" {
				return bad(i, fmt.Sprintf("after %s on node %s %s", describe(st), name, what))
			}
		}
		for _, t := range touched { // events published while observing (none expected) are caught by the next step
			_ = t
		}
		evs := r.takeEvents()
		var mine []EvJ
		for _, e := range evs {
			if up[e.N] || len(cfg.Up) == 0 {
				mine = append(mine, e)
			}
		}
		if cfg.Bulk > 0 {
			mine = collapse(mine, cfg.Bulk)
		}
		if canonEvents(mine) != canonEvents(st.Events) {
			return bad(i, fmt.Sprintf("after %s the events published are [%s], expected [%s]", describe(st), canonEvents(mine), canonEvents(st.Events)))
		}
	}
	// nothing may be left in flight that the model does not know about
	last := sc.Steps[len(sc.Steps)-1]
	_ = last
	return nil
}

func main() {
	in := flag.String("in", "", "scenario file: first line config json, then one scenario per line")
	workers := flag.Int("workers", 4, "")
	maxFail := flag.Int("max-failures", 10, "")
	flag.Parse()
	slog.SetDefault(slog.New(slog.NewTextHandler(io.Discard, nil)))
	f, err := os.Open(*in)
	if err != nil {
		fmt.Fprintln(os.Stderr, err)
		os.Exit(2)
	}
	defer f.Close()
	rd := bufio.NewReaderSize(f, 1<<22)
	line, err := rd.ReadBytes('\n')
	if err != nil {
		fmt.Fprintln(os.Stderr, "config:", err)
		os.Exit(2)
	}
	var cfg Config
	if err := json.Unmarshal(line, &cfg); err != nil {
		fmt.Fprintln(os.Stderr, "config:", err)
		os.Exit(2)
	}
	var scs []Scenario
	for {
		line, err := rd.ReadBytes('\n')
		if len(line) > 1 {
			var sc Scenario
			if e := json.Unmarshal(line, &sc); e != nil {
				fmt.Fprintln(os.Stderr, "scenario:", e)
				os.Exit(2)
			}
			scs = append(scs, sc)
		}
		if err != nil {
			break
		}
	}
	type report struct {
		Scenarios int        `json:"scenarios"`
		Steps     int        `json:"steps"`
		Failures  []*Failure `json:"failures"`
		Samples   [][]string `json:"samples"`
	}
	rep := report{}
	var mu sync.Mutex
	var wg sync.WaitGroup
	idx := make(chan int)
	for w := 0; w < *workers; w++ {
		wg.Add(1)
		go func() {
			defer wg.Done()
			for i := range idx {
				fl := runScenario(cfg, scs[i])
				mu.Lock()
				rep.Scenarios++
				rep.Steps += len(scs[i].Steps)
				if fl != nil {
					rep.Failures = append(rep.Failures, fl)
				} else if len(rep.Samples) < 2 {
					var names []string
					for _, st := range scs[i].Steps {
						names = append(names, describe(st))
					}
					rep.Samples = append(rep.Samples, names)
				}
				mu.Unlock()
			}
		}()
	}
	for i := range scs {
		mu.Lock()
		stop := len(rep.Failures) >= *maxFail
		mu.Unlock()
		if stop {
			break
		}
		idx <- i
	}
	close(idx)
	wg.Wait()
	json.NewEncoder(os.Stdout).Encode(rep)
	if len(rep.Failures) > 0 {
		os.Exit(1)
	}
}
