//go:build !verifquiet

package main

import (
	"time"

	"github.com/anthdm/hollywood/actor"
)

// quietBarrier: without the accessor (the membership / activation harness never needs it) a pause
func quietBarrier(e *actor.Engine, prefixes ...string) { time.Sleep(5 * time.Millisecond) }
