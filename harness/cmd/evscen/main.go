// evscen replays the operation sequences enumerated by TLC from specs/EventStream.tla on a real
// engine (B-scenario): Subscribe / Unsubscribe with the original PID object or an equal copy,
// BroadcastEvent from broadcaster goroutines, subscribers that stop without unsubscribing, sends
// to nil / never spawned / stopped / foreign targets.  Every subscriber is a recording actor; its
// log is compared with the log TLC computed for it.  Only the public API is used.
package main

import (
	"bufio"
	"encoding/json"
	"flag"
	"fmt"
	"io"
	"log/slog"
	"os"
	"strings"
	"sync"
	"sync/atomic"
	"time"

	"github.com/anthdm/hollywood/actor"
)

type Op struct {
	Op     string `json:"op"`
	P      string `json:"p"`
	O      int    `json:"o"`
	B      string `json:"b"`
	Target string `json:"target"`
	Sender string `json:"sender"`
	ID     int    `json:"id"`
}

type Ev struct {
	K      string `json:"k"`
	ID     int    `json:"id"`
	B      string `json:"b"`
	Target string `json:"target"`
	Sender string `json:"sender"`
	Of     string `json:"of"`
}

type Case struct {
	Hist  []Op            `json:"hist"`
	Got   map[string][]Ev `json:"got"`
	Alive map[string]bool `json:"alive"`
}

type Failure struct {
	Index int             `json:"index"`
	Prop  string          `json:"prop"`
	What  string          `json:"what"`
	Case  Case            `json:"case"`
	Seen  map[string][]Ev `json:"seen"`
}

type userEvent struct {
	B  string
	ID int
}
type testMsg struct{ ID int }
type marker struct{ N int }
type syncMsg struct{}

type rig struct {
	e                 *actor.Engine
	mu                sync.Mutex
	logs              map[string][]Ev
	pids              map[string]*actor.PID
	copies            map[string]*actor.PID
	flush             chan int
	fcount            atomic.Int64      // everything the flush subscriber has seen except markers
	names             map[string]string // pid id -> model name
	respawn           map[string]bool   // the recorder spawns a successor from its Stopped handler
	lost              bool              // a marker event never reached the flush subscriber
	sentUndeliverable bool              // the case has issued an undeliverable send already
	dirty             bool              // an event has been put on the stream since the last marker round
}

func (r *rig) nameOf(p *actor.PID) string {
	if p == nil {
		return "nil"
	}
	if p.Address != r.e.Address() {
		return "foreign"
	}
	if n, ok := r.names[p.ID]; ok {
		return n
	}
	if strings.HasPrefix(p.ID, "eventstream/") {
		return "stream"
	}
	if strings.HasPrefix(p.ID, "response/") {
		return "req"
	}
	return p.ID
}

// abstract maps a received message to the model's event shape; ok=false for messages the model does not talk about
func (r *rig) abstract(m any) (Ev, bool) {
	switch x := m.(type) {
	case userEvent:
		return Ev{K: "user", ID: x.ID, B: x.B, Target: "-", Sender: "-", Of: "-"}, true
	case actor.DeadLetterEvent:
		id, of, ok := r.inner(x.Message)
		if !ok {
			return Ev{}, false
		}
		return Ev{K: "dead", ID: id, B: "-", Target: r.nameOf(x.Target), Sender: r.nameOf(x.Sender), Of: of}, true
	case actor.EngineRemoteMissingEvent:
		id, of, ok := r.inner(x.Message)
		if !ok {
			return Ev{}, false
		}
		return Ev{K: "rmiss", ID: id, B: "-", Target: r.nameOf(x.Target), Sender: r.nameOf(x.Sender), Of: of}, true
	}
	return Ev{}, false
}

func (r *rig) inner(m any) (int, string, bool) {
	if m == nil {
		return 0, "nil", true
	}
	switch y := m.(type) {
	case testMsg:
		return y.ID, "msg", true
	case userEvent:
		return y.ID, "user", true
	case actor.DeadLetterEvent:
		id, _, ok := r.inner(y.Message)
		return id, "dead", ok
	case actor.EngineRemoteMissingEvent:
		id, _, ok := r.inner(y.Message)
		return id, "rmiss", ok
	}
	return 0, "", false // markers, lifecycle events, poison pills: outside the model
}

func (r *rig) recorder(name string) actor.Producer {
	return func() actor.Receiver {
		return recv(func(c *actor.Context) {
			switch m := c.Message().(type) {
			case actor.Stopped:
				// "respawn": the successor is spawned under the same id from inside the Stopped handler and subscribes
				r.mu.Lock()
				again := r.respawn[name]
				r.respawn[name] = false
				r.mu.Unlock()
				if again {
					np := c.Engine().Spawn(r.recorder(name), "sub", actor.WithID(name))
					c.Engine().Subscribe(np)
				}
			case syncMsg:
				c.Respond(syncMsg{})
			case marker:
				if name == "#flush" {
					r.flush <- m.N
				}
			default:
				if name == "#flush" {
					r.fcount.Add(1)
				}
				if ev, ok := r.abstract(m); ok && name != "#flush" {
					r.mu.Lock()
					r.logs[name] = append(r.logs[name], ev)
					r.mu.Unlock()
				}
			}
		})
	}
}

type recv func(*actor.Context)

func (f recv) Receive(c *actor.Context) { f(c) }

func (r *rig) quiesce(n *int, live map[string]bool, rounds int) bool {
	r.dirty = false
	for i := 0; i < rounds; i++ {
		*n++
		r.e.BroadcastEvent(marker{*n})
		deadline := time.After(5 * time.Second)
	wait:
		for {
			select {
			case k := <-r.flush:
				if k == *n {
					break wait
				}
			case <-deadline:
				r.lost = true // an event broadcast to a live, subscribed actor did not arrive
				return false
			}
		}
		for name, ok := range live {
			if ok {
				if _, err := r.e.Request(r.pids[name], syncMsg{}, 5*time.Second).Result(); err != nil {
					return false
				}
			}
		}
	}
	return true
}

// fakeRemote: the engine's remote in cases with a subscriber on another node; what the engine hands to it for that
// subscriber is the subscriber's log
type fakeRemote struct {
	addr string
	r    *rig
}

func (f *fakeRemote) Address() string           { return f.addr }
func (f *fakeRemote) Start(*actor.Engine) error { return nil }
func (f *fakeRemote) Stop() *sync.WaitGroup     { return &sync.WaitGroup{} }
func (f *fakeRemote) Send(pid *actor.PID, msg any, sender *actor.PID) {
	r := f.r
	if pid == nil {
		return
	}
	for name, p := range r.pids {
		if strings.HasPrefix(name, "r") && p.Address == pid.Address && p.ID == pid.ID {
			if ev, ok := r.abstract(msg); ok {
				r.mu.Lock()
				r.logs[name] = append(r.logs[name], ev)
				r.mu.Unlock()
			}
		}
	}
}

const nodeAddr = "127.0.0.1:4000"

func runCase(c *Case) (seen map[string][]Ev, problem string) {
	cfg := actor.NewEngineConfig()
	r := &rig{logs: map[string][]Ev{}, pids: map[string]*actor.PID{}, copies: map[string]*actor.PID{}, flush: make(chan int, 1024), names: map[string]string{}, respawn: map[string]bool{}}
	if _, remote := c.Got["r1"]; remote {
		cfg = cfg.WithRemote(&fakeRemote{addr: nodeAddr, r: r})
	}
	e, err := actor.NewEngine(cfg)
	if err != nil {
		panic(err)
	}
	r.e = e
	live := map[string]bool{}
	for name := range c.Got {
		if name == "r1" {
			// on another node: the address is one character shorter than this node's, the id one longer, so that
			// address ++ id equals that of the local subscriber s1
			r.pids[name] = actor.NewPID(nodeAddr[:len(nodeAddr)-1], nodeAddr[len(nodeAddr)-1:]+"sub/s1")
			r.copies[name] = actor.NewPID(r.pids[name].Address, r.pids[name].ID)
			r.logs[name] = []Ev{}
			continue
		}
		r.pids[name] = e.Spawn(r.recorder(name), "sub", actor.WithID(name))
		r.copies[name] = actor.NewPID(r.pids[name].Address, r.pids[name].ID)
		r.names[r.pids[name].ID] = name
		r.logs[name] = []Ev{}
		live[name] = true
	}
	fl := e.Spawn(r.recorder("#flush"), "flush", actor.WithID("f"))
	e.Subscribe(fl)
	// whatever happens, leave no subscription behind: an engine that keeps forwarding to a stopped subscriber
	// would spin for the rest of the run
	defer func() {
		for name := range c.Got {
			e.Unsubscribe(r.pids[name])
			e.Unsubscribe(r.copies[name])
		}
		e.Unsubscribe(fl)
	}()
	stopped := e.Spawn(r.recorder("#stopped"), "gone", actor.WithID("x"))
	<-e.Poison(stopped).Done()
	r.names[stopped.ID] = "stopped"
	never := actor.NewPID(e.Address(), "never/1")
	r.names[never.ID] = "never"
	foreign := actor.NewPID("10.9.8.7:4000", "far/1")
	snd := actor.NewPID(e.Address(), "snd/1")
	r.names[snd.ID] = "snd"
	// broadcaster goroutines
	type job struct {
		ev   userEvent
		done chan struct{}
	}
	bch := map[string]chan job{}
	defer func() {
		for _, ch := range bch {
			close(ch)
		}
	}()
	nmark := 0
	if !r.quiesce(&nmark, live, 1) {
		return nil, "harness: engine does not quiesce before the scenario"
	}
	for _, op := range c.Hist {
		switch op.Op {
		case "sub", "unsub":
			pid := r.pids[op.P]
			if op.O == 2 {
				pid = r.copies[op.P]
			}
			if op.Op == "sub" {
				e.Subscribe(pid)
			} else {
				e.Unsubscribe(pid)
			}
		case "bcast":
			r.dirty = true
			ch, ok := bch[op.B]
			if !ok {
				ch = make(chan job)
				bch[op.B] = ch
				go func() {
					for j := range ch {
						e.BroadcastEvent(j.ev)
						close(j.done)
					}
				}()
			}
			j := job{userEvent{op.B, op.ID}, make(chan struct{})}
			ch <- j
			<-j.done
		case "stop":
			if !r.quiesce(&nmark, live, 1) {
				return r.snapshot(), r.quiesceProblem()
			}
			select {
			case <-e.Poison(r.pids[op.P]).Done():
			case <-time.After(5 * time.Second):
				return r.snapshot(), "harness: subscriber does not stop"
			}
			live[op.P] = false
		case "respawn":
			if !r.quiesce(&nmark, live, 1) {
				return r.snapshot(), r.quiesceProblem()
			}
			r.mu.Lock()
			r.respawn[op.P] = true
			r.mu.Unlock()
			select {
			case <-e.Poison(r.pids[op.P]).Done():
			case <-time.After(5 * time.Second):
				return r.snapshot(), "harness: subscriber does not stop"
			}
		case "revive0":
			// the id is spawned again, nobody subscribes.  What was broadcast before has to have been through the stream by
			// then; a marker round is an event of its own, though (the stream looks at its subscribers while handling
			// it), so there is one only if something was put on the stream since the last round
			if r.dirty && !r.quiesce(&nmark, live, 1) {
				return r.snapshot(), r.quiesceProblem()
			}
			e.Spawn(r.recorder(op.P), "sub", actor.WithID(op.P))
			live[op.P] = true
		case "revive":
			// the id of a subscriber that stopped earlier is spawned again and the new actor subscribes (what was
			// broadcast before has been through the stream by then)
			if r.dirty && !r.quiesce(&nmark, live, 1) {
				return r.snapshot(), r.quiesceProblem()
			}
			np := e.Spawn(r.recorder(op.P), "sub", actor.WithID(op.P))
			e.Subscribe(np)
			live[op.P] = true
		case "send":
			var target, sender *actor.PID
			switch op.Target {
			case "nil":
			case "never":
				target = never
			case "stopped":
				target = stopped
			case "foreign":
				target = foreign
			}
			if op.Sender == "snd" {
				sender = snd
			}
			r.sentUndeliverable = true
			r.dirty = true
			var payload any = testMsg{op.ID}
			if op.B == "nil" {
				payload = nil // the untyped nil is a message value like any other
			}
			if op.B == "dead" {
				// so is a DeadLetterEvent: an actor may relay one it received to somebody who is gone
				payload = actor.DeadLetterEvent{Target: never, Message: testMsg{op.ID}}
			}
			done := make(chan struct{})
			go func() {
				defer close(done)
				if op.Sender == "req" {
					// through Engine.Request: the sender is the request's response PID; nobody answers
					e.Request(target, payload, time.Millisecond).Result()
					return
				}
				e.SendWithSender(target, payload, sender)
			}()
			select {
			case <-done:
			case <-time.After(5 * time.Second):
				return r.snapshot(), "send blocks the caller"
			}
		}
	}
	if !r.quiesce(&nmark, live, 3) {
		return r.snapshot(), r.quiesceProblem()
	}
	// nothing is sent any more: further rounds must not see new events (a marker forwarded to a stopped
	// subscriber may produce one more dead letter, which ends its subscription; a chain never ends)
	busy := 0
	for i := 0; i < 6; i++ {
		before := r.fcount.Load()
		if !r.quiesce(&nmark, live, 1) {
			return r.snapshot(), r.quiesceProblem()
		}
		if r.fcount.Load() > before {
			busy++
		} else {
			break
		}
	}
	if busy == 6 {
		return r.snapshot(), "a finite number of sends keeps producing events: new events in each of 6 consecutive idle rounds"
	}
	return r.snapshot(), ""
}

func (r *rig) quiesceProblem() string {
	if r.lost && r.sentUndeliverable {
		// the stream served its subscribers until an undeliverable message was sent: the event for it (and everything
		// after it) is lost to a subscriber that never left
		return "C09|after an undeliverable send the event stream stopped delivering to an actor subscribed since before the scenario (its events are lost, not surfaced exactly once)"
	}
	if r.lost {
		return "C12|an event broadcast while an actor was subscribed (since before the scenario, never unsubscribed) was not delivered to it within 5 s"
	}
	return "a live subscriber does not answer: the engine does not quiesce"
}

func (r *rig) snapshot() map[string][]Ev {
	r.mu.Lock()
	defer r.mu.Unlock()
	out := map[string][]Ev{}
	for k, v := range r.logs {
		if !strings.HasPrefix(k, "#") {
			out[k] = append([]Ev{}, v...)
		}
	}
	return out
}

func filter(evs []Ev, user bool) []Ev {
	out := []Ev{}
	for _, e := range evs {
		if (e.K == "user") == user {
			out = append(out, e)
		}
	}
	return out
}

func same(a, b []Ev) bool {
	if len(a) != len(b) {
		return false
	}
	for i := range a {
		if a[i] != b[i] {
			return false
		}
	}
	return true
}

func judge(c *Case, seen map[string][]Ev, problem string) (string, string) {
	if problem != "" {
		if strings.HasPrefix(problem, "harness:") {
			return "harness", problem
		}
		if strings.HasPrefix(problem, "C12|") || strings.HasPrefix(problem, "C09|") {
			return problem[:3], problem[4:]
		}
		return "C09", problem
	}
	for name, want := range c.Got {
		got := seen[name]
		if !same(filter(got, true), filter(want, true)) {
			return "C12", fmt.Sprintf("subscriber %s received events %v, expected %v", name, filter(got, true), filter(want, true))
		}
	}
	for name, want := range c.Got {
		got := seen[name]
		if !same(filter(got, false), filter(want, false)) {
			return "C09", fmt.Sprintf("subscriber %s received dead-letter / remote-missing events %v, expected %v", name, filter(got, false), filter(want, false))
		}
	}
	for name, want := range c.Got {
		if !same(seen[name], want) {
			return "C12", fmt.Sprintf("subscriber %s received %v, expected %v (relative order)", name, seen[name], want)
		}
	}
	return "", ""
}

func main() {
	in := flag.String("cases", "", "ndjson file of cases exported by TLC")
	workers := flag.Int("workers", 8, "")
	maxFail := flag.Int("max-failures", 20, "")
	flag.Parse()
	slog.SetDefault(slog.New(slog.NewTextHandler(io.Discard, nil)))
	f, err := os.Open(*in)
	if err != nil {
		fmt.Fprintln(os.Stderr, err)
		os.Exit(2)
	}
	defer f.Close()
	var cases []Case
	rd := bufio.NewReaderSize(f, 1<<20)
	for {
		line, err := rd.ReadBytes('\n')
		if len(line) > 1 {
			var c Case
			if e := json.Unmarshal(line, &c); e != nil {
				fmt.Fprintln(os.Stderr, "case:", e)
				os.Exit(2)
			}
			cases = append(cases, c)
		}
		if err != nil {
			break
		}
	}
	type report struct {
		Cases    int       `json:"cases"`
		Ops      int       `json:"ops"`
		Failures []Failure `json:"failures"`
		NFail    int       `json:"nfail"`
		Samples  []Case    `json:"samples"`
	}
	rep := report{Cases: len(cases)}
	var mu sync.Mutex
	var wg sync.WaitGroup
	idx := make(chan int)
	for w := 0; w < *workers; w++ {
		wg.Add(1)
		go func() {
			defer wg.Done()
			for i := range idx {
				c := &cases[i]
				seen, problem := runCase(c)
				prop, what := judge(c, seen, problem)
				mu.Lock()
				rep.Ops += len(c.Hist)
				if prop != "" {
					rep.NFail++
					if len(rep.Failures) < *maxFail {
						rep.Failures = append(rep.Failures, Failure{Index: i, Prop: prop, What: what, Case: *c, Seen: seen})
					}
				}
				mu.Unlock()
			}
		}()
	}
	for i := range cases {
		mu.Lock()
		stop := rep.NFail >= *maxFail
		mu.Unlock()
		if stop {
			rep.Cases = i
			break
		}
		idx <- i
	}
	close(idx)
	wg.Wait()
	for i := 0; i < len(cases) && len(rep.Samples) < 3; i += 1 + len(cases)/3 {
		rep.Samples = append(rep.Samples, cases[i])
	}
	json.NewEncoder(os.Stdout).Encode(rep)
	if rep.NFail > 0 {
		os.Exit(1)
	}
}
