------------------------------ MODULE RingBuffer ------------------------------
(* Sequential level of ringbuffer/ringbuffer.go: the code's own fields          *)
(* (items, head, tail, mod, len) with its index arithmetic -- Push with the     *)
(* grow-copy, Pop, PopN, Len -- next to a ghost abstract FIFO queue `q`.        *)
(* One action per public call.  `ret` is the API-visible result of the call,    *)
(* `aret` the result the abstract queue gives; property C14 (sequential part)   *)
(* is the refinement invariant  Abs = q  /\  ret = aret.                        *)
(* The concurrent level (mutex + atomic len as separate steps) is RingConc.tla. *)
EXTENDS Integers, Sequences, TLC

CONSTANTS Cap0,       \* initial capacity handed to New (>= 1)
          MaxPush,    \* bound on the total number of Push calls (values 1..MaxPush)
          MaxN        \* PopN is called with n in 1..MaxN

VARIABLES items,      \* function 0..mod-1 -> value; 0 is the zero value of T
          head, tail, mod, len,
          q,          \* ghost: the abstract queue
          nextv,      \* next value to push (distinguishable elements)
          ret, aret   \* result of the last call: concrete / abstract

vars == <<items, head, tail, mod, len, q, nextv, ret, aret>>

Min(a, b) == IF a < b THEN a ELSE b
NoRet == [op |-> "none"]

Init == /\ items = [i \in 0..(Cap0 - 1) |-> 0]
        /\ head = 0 /\ tail = 0 /\ mod = Cap0 /\ len = 0
        /\ q = <<>> /\ nextv = 1
        /\ ret = NoRet /\ aret = NoRet

(* rb.Push(item) *)
Push(v) ==
  /\ v = nextv /\ nextv <= MaxPush
  /\ LET t1 == (tail + 1) % mod IN
       IF t1 = head
       THEN \* grow: newBuff[i] = items[(tail+i) % mod], head = 0, tail = old mod, mod doubled
            LET size == mod * 2
                nb   == [i \in 0..(size - 1) |-> IF i < mod THEN items[(t1 + i) % mod] ELSE 0]
            IN /\ items' = [nb EXCEPT ![mod] = v]
               /\ head' = 0 /\ tail' = mod /\ mod' = size
       ELSE /\ items' = [items EXCEPT ![t1] = v]
            /\ tail' = t1 /\ UNCHANGED <<head, mod>>
  /\ len' = len + 1
  /\ q' = Append(q, v)
  /\ nextv' = nextv + 1
  /\ ret' = [op |-> "Push"] /\ aret' = [op |-> "Push"]

(* rb.Len() *)
LenOp ==
  /\ ret' = [op |-> "Len", n |-> len] /\ aret' = [op |-> "Len", n |-> Len(q)]
  /\ UNCHANGED <<items, head, tail, mod, len, q, nextv>>

(* rb.Pop() *)
Pop ==
  /\ aret' = IF q = <<>> THEN [op |-> "Pop", ok |-> FALSE, v |-> 0]
                         ELSE [op |-> "Pop", ok |-> TRUE, v |-> Head(q)]
  /\ q' = IF q = <<>> THEN q ELSE Tail(q)
  /\ IF len = 0
     THEN /\ ret' = [op |-> "Pop", ok |-> FALSE, v |-> 0]
          /\ UNCHANGED <<items, head, tail, mod, len>>
     ELSE LET h1 == (head + 1) % mod IN
          /\ ret' = [op |-> "Pop", ok |-> TRUE, v |-> items[h1]]
          /\ items' = [items EXCEPT ![h1] = 0]
          /\ head' = h1 /\ len' = len - 1
          /\ UNCHANGED <<tail, mod>>
  /\ UNCHANGED nextv

(* rb.PopN(n) *)
PopN(n) ==
  /\ LET k == Min(n, Len(q)) IN
       /\ aret' = IF q = <<>> THEN [op |-> "PopN", ok |-> FALSE, vs |-> <<>>]
                              ELSE [op |-> "PopN", ok |-> TRUE, vs |-> SubSeq(q, 1, k)]
       /\ q' = SubSeq(q, k + 1, Len(q))
  /\ IF len = 0
     THEN /\ ret' = [op |-> "PopN", ok |-> FALSE, vs |-> <<>>]
          /\ UNCHANGED <<items, head, tail, mod, len>>
     ELSE LET m == IF n >= len THEN len ELSE n
              pos(i) == (head + 1 + i) % mod
          IN /\ ret' = [op |-> "PopN", ok |-> TRUE, vs |-> [i \in 1..m |-> items[pos(i - 1)]]]
             /\ items' = [j \in DOMAIN items |->
                            IF \E i \in 0..(m - 1) : pos(i) = j THEN 0 ELSE items[j]]
             /\ head' = (head + m) % mod
             /\ len' = len - m
             /\ UNCHANGED <<tail, mod>>
  /\ UNCHANGED nextv

Next == \/ \E v \in 1..MaxPush : Push(v)
        \/ LenOp \/ Pop
        \/ \E n \in 1..MaxN : PopN(n)

Spec == Init /\ [][Next]_vars

-----------------------------------------------------------------------------
(* Refinement map: the len elements after head *)
Abs == [i \in 1..len |-> items[(head + i) % mod]]

C14_Refines   == Abs = q
C14_RetOK     == ret = aret
C14_LenOK     == len = Len(q) /\ len >= 0 /\ len < mod
C14_Geometry  == /\ tail = (head + len) % mod
                 /\ DOMAIN items = 0..(mod - 1)
                 /\ \A j \in DOMAIN items :
                      (~ \E i \in 1..len : (head + i) % mod = j) => items[j] = 0 \/ j = head
C14_Once      == \A i, j \in 1..Len(q) : i # j => q[i] # q[j]
TypeOK == /\ head \in 0..(mod - 1) /\ tail \in 0..(mod - 1) /\ mod >= 1
=============================================================================
