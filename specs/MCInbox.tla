---- MODULE MCInbox ----
EXTENDS Inbox
\* model-checking wrapper: sequence-valued constants cannot be written in a .cfg
W4 == <<"w1", "w2", "w3", "w4">>
W5 == <<"w1", "w2", "w3", "w4", "w5">>
W6 == <<"w1", "w2", "w3", "w4", "w5", "w6">>
W7 == <<"w1", "w2", "w3", "w4", "w5", "w6", "w7">>
====
