-------------------------------- MODULE Inbox --------------------------------
(* Scheduling protocol of actor/inbox.go, one action per atomic operation of the *)
(* code (an atomic on procStatus, one ring call, entering / leaving Invoke).     *)
(*                                                                                *)
(*   sender s :  push  -> cas -> (next message | done)       Inbox.Send          *)
(*   worker w :  load -> pop -> inv -> in -> load ...         Inbox.run           *)
(*               ... -> cas -> len -> sched -> free            Inbox.process       *)
(*   starter  :  cas -> swap -> sched -> done                  Inbox.Start         *)
(*   stopper  :  store -> done                                 Inbox.Stop          *)
(*                                                                                *)
(* A pc names the operation the thread is parked in front of; taking the action  *)
(* executes that operation and everything up to the next one.  Worker goroutines *)
(* are created by a successful CAS idle->running and live in a bounded pool of   *)
(* slots (lowest free slot first).  The ring is one atomic step per call here;   *)
(* its own locking is the subject of RingConc.tla.                                *)
(* Serves C01 (exactly once, in order), C02 (no overlapping Invoke), C03 (no lost *)
(* wake-up).                                                                      *)
EXTENDS Integers, Sequences, FiniteSets, TLC

CONSTANTS Senders,     \* set of sender thread names
          NMsg,        \* messages per sender
          WSlots,      \* sequence of worker slot names, e.g. <<"w1","w2","w3">>
          Batch,       \* PopN batch size (messageBatchSize)
          WithStart,   \* TRUE: inbox initially stopped, a starter thread runs Start concurrently
          WithStop,    \* TRUE: a stopper thread runs Stop concurrently
          Recheck      \* mechanism switch: TRUE = Len() re-check after running->idle (the code)

VARIABLES status,      \* procStatus: "stopped" | "starting" | "idle" | "running"
          ring,        \* ring contents: sequence of <<sender, k>>
          procset,     \* in.proc has been published
          spc, sk,     \* sender pc / index of the message being sent
          stpc,        \* starter pc
          sppc,        \* stopper pc
          wpc, wbatch, \* worker pc / batch in hand
          delivered    \* history: messages handed to Invoke, in order

vars == <<status, ring, procset, spc, sk, stpc, sppc, wpc, wbatch, delivered>>

Workers == {WSlots[i] : i \in 1..Len(WSlots)}
Min(a, b) == IF a < b THEN a ELSE b

Init ==
  /\ status = IF WithStart THEN "stopped" ELSE "idle"
  /\ procset = ~WithStart
  /\ ring = <<>>
  /\ spc = [s \in Senders |-> "push"] /\ sk = [s \in Senders |-> 1]
  /\ stpc = IF WithStart THEN "cas" ELSE "done"
  /\ sppc = IF WithStop THEN "store" ELSE "done"
  /\ wpc = [w \in Workers |-> "free"] /\ wbatch = [w \in Workers |-> <<>>]
  /\ delivered = <<>>

\* lowest free slot, not counting `self` (a worker that is about to finish still occupies its slot)
FreeSlot(self) ==
  LET idx == {i \in 1..Len(WSlots) : wpc[WSlots[i]] = "free" /\ WSlots[i] # self}
  IN  WSlots[CHOOSE i \in idx : \A j \in idx : i <= j]
HasFree(self) == \E i \in 1..Len(WSlots) : wpc[WSlots[i]] = "free" /\ WSlots[i] # self

\* in.schedule(): CAS idle->running; on success `go in.process()`
\* wpcBase is the worker-pc function with the caller's own update already applied.
Schedule(self, wpcBase) ==
  IF status = "idle"
  THEN /\ Assert(HasFree(self), "worker slot pool too small")
       /\ status' = "running"
       /\ wpc' = [wpcBase EXCEPT ![FreeSlot(self)] = "load"]
  ELSE /\ UNCHANGED status
       /\ wpc' = wpcBase

---------------------------------------------------------------------------
(* Inbox.Send *)
SPush(s) ==
  /\ spc[s] = "push"
  /\ ring' = Append(ring, <<s, sk[s]>>)
  /\ spc' = [spc EXCEPT ![s] = "cas"]
  /\ UNCHANGED <<status, procset, sk, stpc, sppc, wpc, wbatch, delivered>>

SCas(s) ==
  /\ spc[s] = "cas"
  /\ Schedule("none", wpc)
  /\ IF sk[s] < NMsg
     THEN spc' = [spc EXCEPT ![s] = "push"] /\ sk' = [sk EXCEPT ![s] = @ + 1]
     ELSE spc' = [spc EXCEPT ![s] = "done"] /\ UNCHANGED sk
  /\ UNCHANGED <<ring, procset, stpc, sppc, wbatch, delivered>>

(* Inbox.run / Inbox.process *)
WLoad(w) ==
  /\ wpc[w] = "load"
  /\ wpc' = [wpc EXCEPT ![w] = IF status # "stopped" THEN "pop" ELSE "cas"]
  /\ UNCHANGED <<status, ring, procset, spc, sk, stpc, sppc, wbatch, delivered>>

WPop(w) ==
  /\ wpc[w] = "pop"
  /\ IF ring = <<>>
     THEN wpc' = [wpc EXCEPT ![w] = "cas"] /\ UNCHANGED <<ring, wbatch>>
     ELSE LET n == Min(Batch, Len(ring)) IN
          /\ wbatch' = [wbatch EXCEPT ![w] = SubSeq(ring, 1, n)]
          /\ ring' = SubSeq(ring, n + 1, Len(ring))
          /\ wpc' = [wpc EXCEPT ![w] = "inv"]
  /\ UNCHANGED <<status, procset, spc, sk, stpc, sppc, delivered>>

WInv(w) ==    \* enters proc.Invoke(msgs)
  /\ wpc[w] = "inv"
  /\ delivered' = delivered \o wbatch[w]
  /\ wpc' = [wpc EXCEPT ![w] = "in"]
  /\ UNCHANGED <<status, ring, procset, spc, sk, stpc, sppc, wbatch>>

WIn(w) ==     \* returns from proc.Invoke
  /\ wpc[w] = "in"
  /\ wbatch' = [wbatch EXCEPT ![w] = <<>>]
  /\ wpc' = [wpc EXCEPT ![w] = "load"]
  /\ UNCHANGED <<status, ring, procset, spc, sk, stpc, sppc, delivered>>

WCas(w) ==    \* CAS running->idle
  /\ wpc[w] = "cas"
  /\ IF status = "running"
     THEN /\ status' = "idle"
          /\ wpc' = [wpc EXCEPT ![w] = IF Recheck THEN "len" ELSE "free"]
     ELSE /\ UNCHANGED status
          /\ wpc' = [wpc EXCEPT ![w] = "free"]
  /\ UNCHANGED <<ring, procset, spc, sk, stpc, sppc, wbatch, delivered>>

WLen(w) ==    \* rb.Len() > 0 ?
  /\ wpc[w] = "len"
  /\ wpc' = [wpc EXCEPT ![w] = IF Len(ring) > 0 THEN "sched" ELSE "free"]
  /\ UNCHANGED <<status, ring, procset, spc, sk, stpc, sppc, wbatch, delivered>>

WSched(w) ==
  /\ wpc[w] = "sched"
  /\ Schedule(w, [wpc EXCEPT ![w] = "free"])
  /\ UNCHANGED <<ring, procset, spc, sk, stpc, sppc, wbatch, delivered>>

(* Inbox.Start *)
StCas ==
  /\ stpc = "cas"
  /\ IF status = "stopped"
     THEN status' = "starting" /\ procset' = TRUE /\ stpc' = "swap"
     ELSE UNCHANGED <<status, procset>> /\ stpc' = "done"
  /\ UNCHANGED <<ring, spc, sk, sppc, wpc, wbatch, delivered>>

StSwap ==
  /\ stpc = "swap"
  /\ status' = "idle" /\ stpc' = "sched"
  /\ UNCHANGED <<ring, procset, spc, sk, sppc, wpc, wbatch, delivered>>

StSched ==
  /\ stpc = "sched"
  /\ Schedule("none", wpc)
  /\ stpc' = "done"
  /\ UNCHANGED <<ring, procset, spc, sk, sppc, wbatch, delivered>>

(* Inbox.Stop *)
SpStore ==
  /\ sppc = "store"
  /\ status' = "stopped" /\ sppc' = "done"
  /\ UNCHANGED <<ring, procset, spc, sk, stpc, wpc, wbatch, delivered>>

Next == \/ \E s \in Senders : SPush(s) \/ SCas(s)
        \/ \E w \in Workers : WLoad(w) \/ WPop(w) \/ WInv(w) \/ WIn(w) \/ WCas(w) \/ WLen(w) \/ WSched(w)
        \/ StCas \/ StSwap \/ StSched \/ SpStore

Spec == Init /\ [][Next]_vars /\ WF_vars(Next)

---------------------------------------------------------------------------
Total == Cardinality(Senders) * NMsg
AllSent == {<<s, k>> : s \in Senders, k \in 1..NMsg}
Terminal == /\ \A s \in Senders : spc[s] = "done"
            /\ stpc = "done" /\ sppc = "done"
            /\ \A w \in Workers : wpc[w] = "free"
Range(f) == {f[i] : i \in DOMAIN f}

(* C02: Invoke never runs in two goroutines at once; and never before proc is published *)
C02_NoOverlap == Cardinality({w \in Workers : wpc[w] = "in"}) <= 1
C02_ProcSet   == \A w \in Workers : wpc[w] \in {"inv", "in"} => procset

(* C03: an idle inbox with a backlog always has somebody about to schedule it *)
Pending == \/ \E s \in Senders : spc[s] = "cas"
           \/ \E w \in Workers : wpc[w] \in {"len", "sched"}
           \/ stpc = "sched"
C03_NoLostWakeup == (status = "idle" /\ ring # <<>>) => Pending
C03_Terminal == (Terminal /\ ~WithStop) => (ring = <<>> /\ Len(delivered) = Total)
C03_Live == <>(WithStop \/ Len(delivered) = Total)

(* C01: every pushed message is invoked at most once, per-sender order kept, nothing invented *)
C01_NoDup  == \A i, j \in 1..Len(delivered) : i # j => delivered[i] # delivered[j]
C01_Order  == \A i, j \in 1..Len(delivered) :
                 (i < j /\ delivered[i][1] = delivered[j][1]) => delivered[i][2] < delivered[j][2]
C01_NoForge == Range(delivered) \subseteq AllSent
C01_Complete == (Terminal /\ ~WithStop) => Range(delivered) = AllSent

TypeOK == /\ status \in {"stopped", "starting", "idle", "running"}
          /\ \A w \in Workers : wpc[w] \in {"free", "load", "pop", "inv", "in", "cas", "len", "sched"}
=============================================================================
