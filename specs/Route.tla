-------------------------------- MODULE Route --------------------------------
(* Local message routes through the public API of actor/engine.go and            *)
(* actor/context.go: who receives what, and whom the receiver sees as the sender.  *)
(*                                                                                *)
(* One message at a time is injected from outside the actors                      *)
(*   "send"     Engine.Send(to, m)                     sender: nobody             *)
(*   "sendws"   Engine.SendWithSender(to, m, from)     sender: from (may be nil)  *)
(*   "request"  Engine.Request(to, m, timeout)         sender: the response PID   *)
(* and every actor that receives it carries out the next instruction of the       *)
(* message's script from inside its Receive:                                      *)
(*   fwd x      Context.Forward(x): the message in hand goes on to x, the         *)
(*              forwarder is the sender                                            *)
(*   send x     Context.Send(x, m'): a new message, the sending actor is the      *)
(*              sender                                                             *)
(*   resp       Context.Respond(m'): a new message to the sender of the message   *)
(*              in hand, without a sender; nothing happens if there is no sender  *)
(* A message for a target that is not registered becomes a DeadLetterEvent        *)
(* carrying target, message and sender; a message for the response PID of the     *)
(* request is what Result() returns.                                               *)
(* The model is deterministic: TLC enumerates every entry and script of the       *)
(* bounded space and computes what every actor must see (B-table).                *)
EXTENDS Integers, Sequences, FiniteSets, TLC, Json

CONSTANTS Actors, MaxLen, Export,
          RespondKeepsSender    \* regression switch: TRUE models a Respond that passes the responder on as sender

Gone == "gone"
Nil == "nil"
Resp == "resp"
Targets == Actors \cup {Gone}
Instr == [k : {"fwd", "send"}, to : Targets] \cup {[k |-> "resp", to |-> "-"]}
Entries == [api : {"send"}, from : {Nil}, to : Targets]
           \cup [api : {"sendws"}, from : Actors \cup {Nil}, to : Targets]
           \cup [api : {"request"}, from : {Resp}, to : Targets]
RECURSIVE SeqsUpTo(_, _)
SeqsUpTo(S, n) == IF n = 0 THEN {<<>>} ELSE LET P == SeqsUpTo(S, n - 1) IN P \cup {Append(s, x) : s \in {q \in P : Len(q) = n - 1}, x \in S}

VARIABLES entry, script,     \* the case
          at, sender, gen,   \* the message in flight: where it is going, whom the receiver will see as sender, which message
          pc,                \* index of the next instruction
          seen, dead, result \* deliveries <<actor, sender, gen>> in order; dead letters <<target, sender, gen>>; what Result() returned
vars == <<entry, script, at, sender, gen, pc, seen, dead, result>>

None == "none"
Init ==
  /\ entry \in Entries /\ script \in SeqsUpTo(Instr, MaxLen)
  /\ at = entry.to /\ sender = entry.from /\ gen = 0 /\ pc = 1
  /\ seen = <<>> /\ dead = <<>> /\ result = -1

(* the message in flight arrives *)
Arrive ==
  /\ at # None
  /\ IF at = Gone
     THEN \* SendLocal finds no process: DeadLetterEvent{Target, Message, Sender}
          /\ dead' = Append(dead, <<Gone, sender, gen>>) /\ at' = None
          /\ UNCHANGED <<seen, result, sender, gen, pc>>
     ELSE IF at = Resp
     THEN \* the response process of the request: Result() returns the message
          /\ result' = gen /\ at' = None
          /\ UNCHANGED <<seen, dead, sender, gen, pc>>
     ELSE /\ seen' = Append(seen, <<at, sender, gen>>)
          /\ IF pc > Len(script)
             THEN at' = None /\ UNCHANGED <<sender, gen, pc, dead, result>>
             ELSE LET i == script[pc] IN
                  /\ pc' = pc + 1 /\ UNCHANGED <<dead, result>>
                  /\ CASE i.k = "fwd"  -> at' = i.to /\ sender' = at /\ UNCHANGED gen
                       [] i.k = "send" -> at' = i.to /\ sender' = at /\ gen' = gen + 1
                       [] OTHER        -> IF sender = Nil
                                          THEN at' = None /\ UNCHANGED <<sender, gen>>       \* "context got no sender"
                                          ELSE /\ at' = sender /\ gen' = gen + 1
                                               /\ sender' = IF RespondKeepsSender THEN at ELSE Nil
  /\ UNCHANGED <<entry, script>>

Next == Arrive
Spec == Init /\ [][Next]_vars /\ WF_vars(Next)

(* ---------------------------------------------------------------- properties *)
(* content-faithful: what arrives is the message that was sent, hop after hop (generations never skip or repeat
   out of order), each delivery sees as sender the actor that passed it on, or the injected sender on the first hop *)
Faithful ==
  /\ \A k \in 1..Len(seen) : seen[k][3] \in 0..MaxLen /\ (k > 1 => seen[k][3] >= seen[k - 1][3])
  /\ (Len(seen) > 0 /\ entry.to \in Actors) => (seen[1][1] = entry.to /\ seen[1][2] = entry.from /\ seen[1][3] = 0)
(* exactly one of: still travelling, ended at an actor, dead-lettered once, returned by Result() *)
OneEnd == Len(dead) <= 1 /\ (Len(dead) = 1 => at = None)
(* a reply never claims a sender *)
RespondAnonymous == \A k \in 2..Len(seen) : (script[k - 1].k = "resp") => seen[k][2] = Nil
Terminates == <>(at = None)
TypeOK == pc \in 1..(MaxLen + 1)

Case == [entry |-> entry, script |-> script, seen |-> seen, dead |-> dead, result |-> result]
ExportCase == (Export /\ at = None) => PrintT(<<"CASE", ToJson(Case)>>)
=============================================================================
