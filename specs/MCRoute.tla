---- MODULE MCRoute ----
EXTENDS Route
A2 == {"a", "b"}
A3 == {"a", "b", "c"}
====
