CONSTANTS Actors <- Chain Parent <- ParentChain Roots <- RootP KidsOf <- KidsChain MaxRestarts <- MR0_3
  NMsg = 1 SendTo <- SendG Toks <- T2 TokTarget <- TgtPC TokGraceful <- G_all
  Faults = 0 CrashKinds <- AllKinds Batch = 4 Eager = TRUE
  FixD1 = TRUE FixD2 = TRUE FixD4 = TRUE FixD5 = TRUE FixD12 = TRUE FixD13 = TRUE
SPECIFICATION Spec
INVARIANTS C02_NoOverlap C04_Lifecycle C04_SpawnRet C05_AtMostOnce C05_InOrder C05_Numbered C05_Complete
  C06_Alive C06_Bounded C06_Clean C07_DoneAfterStopKF C07_Drained C07_DrainedActed C07_ActsOnSound C07_AllDoneKF
  C08_KidsFirstKF C08_Children C08_NotDoneEarlyKF C13_Chain
