---- MODULE MCRemoteLink ----
EXTENDS RemoteLink
T1 == {"t1"}
T2 == {"t1", "t2"}
====
