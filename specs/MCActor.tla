---- MODULE MCActor ----
EXTENDS Actor, ActorInst
====
