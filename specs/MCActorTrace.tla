---- MODULE MCActorTrace ----
EXTENDS ActorTrace, ActorInst
====
