---- MODULE MCStopWait ----
EXTENDS StopWait
C2 == {"c1", "c2"}
C3 == {"c1", "c2", "c3"}
====
