------------------------------- MODULE RingConc -------------------------------
(* ringbuffer/ringbuffer.go under concurrent callers, one action per operation    *)
(* the code performs on its mutex and on the atomic length counter:                *)
(*                                                                                 *)
(*   Push(v)   Lock -> AddInt64(len, +1) -> Unlock                                 *)
(*   Pop       Lock -> [len = 0: Unlock] | AddInt64(len, -1) -> Unlock             *)
(*   PopN(n)   Lock -> [len = 0: Unlock] | AddInt64(len, -min(n, len)) -> Unlock   *)
(*   Len       LoadInt64(len)                                                      *)
(*                                                                                 *)
(* A pc names the operation the thread is parked in front of.  Everything between  *)
(* two of these operations (index arithmetic, growing, copying) happens under the  *)
(* mutex and is invisible to the other threads, so the abstract queue changes at   *)
(* the AddInt64 (the linearization point; for an empty Pop / PopN: the Lock).      *)
(* Serves C14 (linearizable FIFO, Len = pushes - pops, never negative).            *)
EXTENDS Integers, Sequences, FiniteSets, TLC

CONSTANTS Progs          \* thread -> sequence of calls [op, v]: op in {"Push","Pop","PopN","Len"}, v = value / n

Threads == DOMAIN Progs
VARIABLES q, len, holder, pc, idx, res, tmp
vars == <<q, len, holder, pc, idx, res, tmp>>

R(k, v, vs, ok) == [k |-> k, v |-> v, vs |-> vs, ok |-> ok]
Cur(t) == Progs[t][idx[t]]
First(t) == IF Progs[t] = <<>> THEN "done" ELSE IF Progs[t][1].op = "Len" THEN "load" ELSE "lock"
Min(a, b) == IF a < b THEN a ELSE b

Init ==
  /\ q = <<>> /\ len = 0 /\ holder = "none"
  /\ idx = [t \in Threads |-> 1] /\ pc = [t \in Threads |-> First(t)]
  /\ res = [t \in Threads |-> <<>>] /\ tmp = [t \in Threads |-> R("-", 0, <<>>, FALSE)]

(* the call is over: record its result, park in front of the next call *)
Finish(t, r) ==
  /\ res' = [res EXCEPT ![t] = Append(@, r)]
  /\ idx' = [idx EXCEPT ![t] = @ + 1]
  /\ pc' = [pc EXCEPT ![t] = IF idx[t] = Len(Progs[t]) THEN "done"
                             ELSE IF Progs[t][idx[t] + 1].op = "Len" THEN "load" ELSE "lock"]

Lock(t) ==
  /\ pc[t] = "lock" /\ holder = "none"
  /\ holder' = t
  /\ LET c == Cur(t) IN
     IF c.op = "Push" THEN pc' = [pc EXCEPT ![t] = "add"] /\ UNCHANGED <<tmp, res, idx>>
     ELSE IF len = 0
     THEN pc' = [pc EXCEPT ![t] = "unlock"] /\ tmp' = [tmp EXCEPT ![t] = R(IF c.op = "Pop" THEN "pop" ELSE "popn", 0, <<>>, FALSE)]
          /\ UNCHANGED <<res, idx>>
     ELSE pc' = [pc EXCEPT ![t] = "add"] /\ UNCHANGED <<tmp, res, idx>>
  /\ UNCHANGED <<q, len>>

Add(t) ==
  /\ pc[t] = "add" /\ holder = t
  /\ LET c == Cur(t) IN
     CASE c.op = "Push" -> /\ q' = Append(q, c.v) /\ len' = len + 1
                           /\ tmp' = [tmp EXCEPT ![t] = R("push", c.v, <<>>, TRUE)]
       [] c.op = "Pop"  -> /\ q' = Tail(q) /\ len' = len - 1
                           /\ tmp' = [tmp EXCEPT ![t] = R("pop", Head(q), <<>>, TRUE)]
       [] OTHER         -> LET n == Min(c.v, len) IN
                           /\ q' = SubSeq(q, n + 1, Len(q)) /\ len' = len - n
                           /\ tmp' = [tmp EXCEPT ![t] = R("popn", 0, SubSeq(q, 1, n), TRUE)]
  /\ pc' = [pc EXCEPT ![t] = "unlock"]
  /\ UNCHANGED <<holder, idx, res>>

Unlock(t) ==
  /\ pc[t] = "unlock" /\ holder = t
  /\ holder' = "none"
  /\ Finish(t, tmp[t])
  /\ UNCHANGED <<q, len, tmp>>

Load(t) ==
  /\ pc[t] = "load"
  /\ Finish(t, R("len", len, <<>>, TRUE))
  /\ UNCHANGED <<q, len, holder, tmp>>

Next == \E t \in Threads : Lock(t) \/ Add(t) \/ Unlock(t) \/ Load(t)
Spec == Init /\ [][Next]_vars /\ WF_vars(Next)

(* ---------------------------------------------------------------- properties (C14) *)
C14_LenIsQueue == len = Len(q) /\ len >= 0
Pushed == UNION {{Progs[t][i].v : i \in {j \in 1..Len(Progs[t]) : Progs[t][j].op = "Push"}} : t \in Threads}
PoppedSeqOf(t) == [i \in 1..Len(res[t]) |-> IF res[t][i].k = "pop" /\ res[t][i].ok THEN <<res[t][i].v>>
                                            ELSE IF res[t][i].k = "popn" THEN res[t][i].vs ELSE <<>>]
RECURSIVE Flat(_)
Flat(ss) == IF ss = <<>> THEN <<>> ELSE Head(ss) \o Flat(Tail(ss))
AllPopped == UNION {{Flat(PoppedSeqOf(t))[i] : i \in 1..Len(Flat(PoppedSeqOf(t)))} : t \in Threads}
(* nothing comes out that was not pushed, nothing twice: popped values and what is still queued partition what the
   completed pushes put in *)
C14_ExactlyOnce ==
  LET popped == UNION {{<<t, i>> : i \in 1..Len(Flat(PoppedSeqOf(t)))} : t \in Threads}
  IN  /\ AllPopped \subseteq Pushed
      /\ Cardinality(popped) = Cardinality(AllPopped)
      /\ AllPopped \cap {q[i] : i \in 1..Len(q)} = {}
(* what one thread pops comes out in the order it was pushed by any one thread (values are pushed in increasing order per thread) *)
C14_Done == <>(\A t \in Threads : pc[t] = "done")
TypeOK == holder \in Threads \cup {"none"}
=============================================================================
