---- MODULE ActorInst ----
(* Instance constants shared by the model-checking wrapper (MCActor) and the trace wrapper (MCActorTrace). *)
EXTENDS Integers, Sequences
\* constant definitions for the model-checking instances (functions cannot be written in a .cfg)
One == {"A"}
MR0_1 == [a \in One |-> 0]
MR1_1 == [a \in One |-> 1]
MR2_1 == [a \in One |-> 2]
T0 == {}
T1 == {<<"env", "t1">>}
T2 == {<<"env", "t1">>, <<"env", "t2">>}
TgtA == [t \in T2 |-> "A"]
G_t1 == [t \in T2 |-> t = <<"env", "t1">>]     \* t1 = Poison, t2 = Stop
G_all == [t \in T2 |-> TRUE]
G_none == [t \in T2 |-> FALSE]
AllKinds == {"Init", "Started", "user"}
NoSucc1 == [a \in One |-> "none"]
\* A and the successor B it spawns under its own id from its final Stopped handler
Line == {"A", "B"}
ParentLine == [a \in Line |-> "none"]
KidsNoneL == [a \in Line |-> <<>>]
RootA == {"A"}
SuccAB == [a \in Line |-> IF a = "A" THEN "B" ELSE "none"]
MR1_L == [a \in Line |-> 1]
MR0_L == [a \in Line |-> 0]
TgtA_L == [t \in T2 |-> "A"]
SendA == {"A"}
SendAB == {"A", "B"}
ParentOne == [a \in One |-> "none"]
KidsNone1 == [a \in One |-> <<>>]


\* chain P -> C -> G
NoSucc3c == [a \in {"P", "C", "G"} |-> "none"]
NoSuccF == [a \in {"P", "C", "D"} |-> "none"]
NoSucc2 == [a \in {"P", "C"} |-> "none"]
Chain == {"P", "C", "G"}
ParentChain == [a \in Chain |-> IF a = "C" THEN "P" ELSE IF a = "G" THEN "C" ELSE "none"]
KidsChain == [a \in Chain |-> IF a = "P" THEN <<"C">> ELSE IF a = "C" THEN <<"G">> ELSE <<>>]
RootP == {"P"}
MR0_3 == [a \in Chain |-> 0]
MR1_3 == [a \in Chain |-> 1]
TgtPC == [t \in T2 |-> IF t = <<"env", "t1">> THEN "P" ELSE "C"]
SendC == {"C"}
SendG == {"G"}
\* root with two children
Fan == {"P", "C", "D"}
ParentFan == [a \in Fan |-> IF a = "P" THEN "none" ELSE "P"]
KidsFan == [a \in Fan |-> IF a = "P" THEN <<"C", "D">> ELSE <<>>]
MR0_F == [a \in Fan |-> 0]
MR1_F == [a \in Fan |-> 1]
SendP == {"P"}
T1onP == [t \in T1 |-> "P"]
TgtCP == [t \in T2 |-> IF t = <<"env", "t1">> THEN "C" ELSE "P"]
UserOnly == {"user"}
StoppedAndUser == {"user", "Stopped"}
StartOnly == {"Init", "Started"}
\* pair: P with one child C
Pair == {"P", "C"}
ParentPair == [a \in Pair |-> IF a = "C" THEN "P" ELSE "none"]
KidsPair == [a \in Pair |-> IF a = "P" THEN <<"C">> ELSE <<>>]
MR0_2 == [a \in Pair |-> 0]
MR1_2 == [a \in Pair |-> 1]
MRc0p1 == [a \in Pair |-> IF a = "C" THEN 0 ELSE 1]
MRc1p0 == [a \in Pair |-> IF a = "C" THEN 1 ELSE 0]
T1onC == [t \in T1 |-> "C"]
====
