---- MODULE MCCluster ----
EXTENDS ClusterAgent
\* C18: one real node and three further members with different kind sets
N1 == {"A"}
G3 == {"G1", "G2", "G3"}
G2 == {"G1", "G2"}
KMem == [m \in {"A", "G1", "G2", "G3"} |-> CASE m = "A" -> {"p"} [] m = "G1" -> {"p", "q"} [] m = "G2" -> {"q"} [] OTHER -> {}]
\* C19: two / three real nodes
N2 == {"A", "B"}
N3 == {"A", "B", "C"}
KAct == [m \in {"A", "B", "C"} |-> CASE m = "A" -> {"p"} [] m = "B" -> {"p", "q"} [] OTHER -> {}]
KAct0 == [m \in {"A", "B", "C"} |-> CASE m = "A" -> {"p"} [] OTHER -> {}]
KActPP == [m \in {"A", "B", "C"} |-> CASE m = "C" -> {} [] OTHER -> {"p"}]
NoGhosts == {}
KP == {"p"}
KPQ == {"p", "q"}
KPQR == {"p", "q", "r"}
I1 == {"1"}
I2 == {"1", "2"}
IB == {"bulk"}
IS == {"1", "x/1"}
S0 == {}
S1 == {"x"}
UpA == {"A"}
UpAB == {"A", "B"}
UpABC == {"A", "B", "C"}
====
