------------------------------ MODULE ActorProps ------------------------------
(* Property predicates of C02, C04-C08, C13 as operators over the observable      *)
(* history only -- the delivery log, the published events, the stop tokens --     *)
(* so that the very same formulas are checked by TLC on the model (Actor.tla)     *)
(* and evaluated by TLC on logs recorded from the real engine (ActorTrace.tla).   *)
(*                                                                                *)
(* log entry: [a, inc, kind, id, mw, kids, alive, sreg, dn]                       *)
(*   a/inc   actor and incarnation (number of the Producer call)                  *)
(*   kind    "Init" | "Started" | "user" | "Stopped" | anything else (= leak)     *)
(*   id      user message id (0 otherwise)                                        *)
(*   mw      the configured middleware chain wrapped this delivery, in order      *)
(*   kids    Context.Children() seen inside the delivery                          *)
(*   alive   descendants of a that were registered at that moment                 *)
(*   sreg    a itself was registered at that moment                               *)
(*   dn      environment stop tokens whose context was already done               *)
EXTENDS Integers, Sequences, FiniteSets

CONSTANTS Actors, Parent, Toks, TokTarget, TokGraceful, MaxRestarts

RECURSIVE IsAnc(_, _, _)
IsAnc(p, d, fuel) == IF fuel = 0 \/ Parent[d] = "none" THEN FALSE
                     ELSE Parent[d] = p \/ IsAnc(p, Parent[d], fuel - 1)
Desc(p) == {d \in Actors : IsAnc(p, d, Cardinality(Actors))}
Anc(d)  == {p \in Actors : IsAnc(p, d, Cardinality(Actors))}

Same(x, y) == x.a = y.a /\ x.inc = y.inc
Idx(log) == 1..Len(log)

(* ---- C04 lifecycle protocol ---- *)
StoppedLast(log) == \A i, j \in Idx(log) : (i < j /\ Same(log[i], log[j])) => log[i].kind # "Stopped"
InitFirst(log)   == \A j \in Idx(log) : (\A i \in 1..(j - 1) : ~Same(log[i], log[j])) <=> log[j].kind = "Init"
StartedSecond(log) ==
  \A j \in Idx(log) :
     /\ log[j].kind = "Started" => Cardinality({i \in 1..(j - 1) : Same(log[i], log[j])}) = 1
     /\ log[j].kind = "user" => \E i \in 1..(j - 1) : Same(log[i], log[j]) /\ log[i].kind = "Started"
KindsKnown(log)  == \A j \in Idx(log) : log[j].kind \in {"Init", "Started", "user", "Stopped"}   \* no pill / internal message leaks
(* a new incarnation begins only after the previous one was told Stopped *)
IncOrder(log) ==
  \A j \in Idx(log) : log[j].kind = "Init" /\ log[j].inc > 1 =>
     \E i \in 1..(j - 1) : log[i].a = log[j].a /\ log[i].inc = log[j].inc - 1 /\ log[i].kind = "Stopped"
IncMonotone(log) == \A i, j \in Idx(log) : (i < j /\ log[i].a = log[j].a) => log[i].inc <= log[j].inc
Lifecycle(log) == StoppedLast(log) /\ InitFirst(log) /\ StartedSecond(log) /\ KindsKnown(log) /\ IncOrder(log) /\ IncMonotone(log)

(* ---- C05 / C01 at engine level ---- *)
UserIdx(log, a) == {i \in Idx(log) : log[i].a = a /\ log[i].kind = "user"}
AtMostOnce(log) == \A a \in Actors : \A i, j \in UserIdx(log, a) : i # j => log[i].id # log[j].id
InOrder(log)    == \A a \in Actors : \A i, j \in UserIdx(log, a) : i < j => log[i].id < log[j].id
Handled(log, a, k) == \E i \in UserIdx(log, a) : log[i].id = k
EvIdx(events, e, a) == {i \in 1..Len(events) : events[i].e = e /\ events[i].a = a}
(* ActorRestartedEvent carries 1, 2, 3, ... in this order *)
RestartsNumbered(events) ==
  \A a \in Actors : \A i \in EvIdx(events, "Restarted", a) :
     events[i].n = Cardinality({j \in EvIdx(events, "Restarted", a) : j <= i})

(* ---- C06 ---- *)
RestartsBounded(events) == \A a \in Actors : Cardinality(EvIdx(events, "Restarted", a)) <= MaxRestarts[a]
Exhausted(events, a) == EvIdx(events, "MaxRestartsExceeded", a) # {}
(* the budget is exceeded once: the actor is gone afterwards, nothing of it can fail again *)
ExhaustedOnce(events) == \A a \in Actors : Cardinality(EvIdx(events, "MaxRestartsExceeded", a)) <= 1

(* a is not the subject of any stop request (directly or through an ancestor) and has not exhausted its budget *)
NotStopping(issued, events, a) ==
  /\ \A k \in 1..Len(issued) : TokTarget[issued[k]] # a /\ TokTarget[issued[k]] \notin Anc(a)
  /\ \A x \in Anc(a) \cup {a} : ~Exhausted(events, x)

(* ---- C10 ---- *)
(* an actor that is handling anything but its final Stopped is live: GetPID must resolve it *)
LiveResolvable(log) == \A j \in Idx(log) : log[j].kind # "Stopped" => log[j].sreg

(* ---- C13 ---- *)
ChainAlways(log) == \A j \in Idx(log) : log[j].mw

(* ---- C08 ---- *)
FinalStopped(x) == x.kind = "Stopped" /\ ~x.sreg          \* delivered by cleanup, after unregistering
(* kf = TRUE carves out known finding KF-ORPHAN: a descendant that is itself being stopped by someone else (a
   Stop/Poison aimed at it or at an actor between it and p, or its own restart-budget exhaustion) has already left
   its parent's child table and is not waited for *)
SelfStopping(issued, events, p, d) ==
  \E x \in ({d} \cup Anc(d)) \cap Desc(p) :
      (\E k \in 1..Len(issued) : TokTarget[issued[k]] = x) \/ Exhausted(events, x)
(* exhausting the restart budget stops the actor and everything below it.  kf = TRUE carves out the consequence of
   known finding KF-PENDINGSTOP: the shutdown poisons the children and waits; a child that is being stopped by
   something else at that moment never signals that request, so the exhausted parent waits for ever, still registered *)
CleanAfterExhaustion(events, issued, regf, kf) ==
  \A a \in Actors : Exhausted(events, a) =>
     \/ ~regf[a] /\ \A d \in Desc(a) : ~regf[d]
     \/ kf /\ \E d \in Desc(a) : SelfStopping(issued, events, a, d)

KidsFirst(log, issued, events, kf) ==
  \A j \in Idx(log) : FinalStopped(log[j]) =>
     \A d \in Desc(log[j].a) :
        \/ kf /\ SelfStopping(issued, events, log[j].a, d)
        \/ /\ d \notin log[j].alive
           /\ (\E i \in 1..(j - 1) : log[i].a = d) => (\E i \in 1..(j - 1) : log[i].a = d /\ FinalStopped(log[i]))
(* at quiescence an actor that lived and is no longer registered has ended: the last thing it handled is a Stopped
   delivered after it was unregistered and after all its descendants were gone (whatever made it stop: Stop, Poison,
   parent shutdown or an exhausted restart budget) *)
LastIdx(log, a) == CHOOSE j \in Idx(log) : log[j].a = a /\ \A i \in Idx(log) : log[i].a = a => i <= j
TerminalStopped(log, issued, events, regf, kf) ==
  \A a \in Actors : (~regf[a] /\ \E i \in Idx(log) : log[i].a = a) =>
     LET j == LastIdx(log, a) IN
       /\ FinalStopped(log[j])
       /\ \A d \in Desc(a) : (kf /\ SelfStopping(issued, events, a, d)) \/ d \notin log[j].alive

(* Children(): never lists a child that is gone, and lists every registered child that is not in the course of
   being stopped (a child leaves the table when its own shutdown begins) *)
ChildrenExact(log, issued, events) ==
  \A j \in Idx(log) :
     /\ \A c \in log[j].kids : Parent[c] = log[j].a /\ c \in log[j].alive
     /\ \A c \in log[j].alive : (Parent[c] = log[j].a /\ ~SelfStopping(issued, events, log[j].a, c)) => c \in log[j].kids
(* no stop context of an actor or of one of its ancestors is done before the actor handled its final Stopped *)
NotDoneEarly(log, done, issued, events, kf) ==
  \A j \in Idx(log) : FinalStopped(log[j]) =>
     \A t \in log[j].dn : \/ TokTarget[t] # log[j].a /\ TokTarget[t] \notin Anc(log[j].a)
                          \/ kf /\ done[t].imm                                                  \* KF-STOPRACE
                          \/ kf /\ TokTarget[t] \in Anc(log[j].a)
                                /\ SelfStopping(issued, events, TokTarget[t], log[j].a)         \* KF-ORPHAN

(* ---- C07 ---- *)
(* done[t] = [at |-> number of log entries when the context was observed done, reg |-> target still registered then,
              imm |-> the context was already done when Stop/Poison returned (no registered target)],
   at = -1 while not done.  issued = sequence of tokens in the order of the Stop/Poison calls. *)
Min2(x, y) == IF x < y THEN x ELSE y
EverLived(log, a, n) == \E i \in 1..n : log[i].a = a
(* kf = TRUE carves out known finding KF-STOPRACE: a Stop/Poison call that finds its target in the middle of
   stopping (already unregistered, Stopped not yet handled) returns a context that is done at once *)
DoneAfterStop(log, done, kf) ==
  \A t \in Toks : done[t].at >= 0 =>
     /\ ~done[t].reg
     /\ EverLived(log, TokTarget[t], Min2(done[t].at, Len(log))) =>
           \/ \E i \in 1..Min2(done[t].at, Len(log)) : log[i].a = TokTarget[t] /\ FinalStopped(log[i])
           \/ kf /\ done[t].imm
(* t is the stop request its target acts on: the first one issued for the target, with no earlier request on an
   ancestor (whose shutdown would poison the target first) and no restart-budget exhaustion in between *)
FirstOn(issued, t) ==
  \E k \in 1..Len(issued) : issued[k] = t /\
     \A m \in 1..(k - 1) : TokTarget[issued[m]] # TokTarget[t] /\ TokTarget[issued[m]] \notin Anc(TokTarget[t])
ActsOn(issued, events, done, t) ==
  /\ FirstOn(issued, t) /\ ~done[t].imm
  /\ \A a \in Anc(TokTarget[t]) \cup {TokTarget[t]} : ~Exhausted(events, a)
Drained(log, events, done, issued, sentBefore) ==
  \A t \in Toks : (done[t].at >= 0 /\ TokGraceful[t] /\ ActsOn(issued, events, done, t)) =>
     \A k \in sentBefore[t] : \E i \in 1..Min2(done[t].at, Len(log)) :
         log[i].a = TokTarget[t] /\ log[i].kind = "user" /\ log[i].id = k
(* at quiescence every issued stop request is done; carveD3 carves out known finding KF-PENDINGSTOP:
   a stop request still pending when its target is stopped by something else -- an earlier request on the
   target or an ancestor, or restart-budget exhaustion -- is never signalled *)
AllDone(done, issued, events, carveD3) ==
  \A k \in 1..Len(issued) :
     \/ done[issued[k]].at >= 0
     \/ carveD3 /\ (\/ ~FirstOn(issued, issued[k])
                    \/ \E a \in Anc(TokTarget[issued[k]]) \cup {TokTarget[issued[k]]} : Exhausted(events, a)
                    \* the target's own shutdown poisons its children and waits for them: if a descendant is being
                    \* stopped by something else at that moment, that internal request is the pending one and the
                    \* target waits for ever
                    \/ \E d \in Desc(TokTarget[issued[k]]) : SelfStopping(issued, events, TokTarget[issued[k]], d))
=============================================================================
