---- MODULE MCProvider ----
EXTENDS Provider
P3 == {"G1", "G2", "G3"}
P2 == {"G1", "G2"}
U3 == {"A", "G1", "G2", "G3"}
U2 == {"A", "G1", "G2"}
L3 == (SUBSET U3) \ {{}}
L2 == (SUBSET U2) \ {{}}
X3 == {"G1", "G2", "G3", "X"}
X2 == {"G1", "G2", "X"}
\* a small alphabet for complete sequences of length 4
Hs == {"G1", "G2"}
Ls == {{"G1"}, {"G1", "G2"}}
Xs == {"G1", "X"}
NoAlt == {}
AltG1 == {"G1"}
====
