------------------------------- MODULE ReqResp -------------------------------
(* Engine.Request / Response.Result / Response.Send of actor/engine.go and        *)
(* actor/response.go, and Context.Respond on the responder's side.                *)
(*                                                                                *)
(*   Req(r)        Engine.Request: a one-shot Response process with a fresh PID   *)
(*                 is registered, the message is sent with that PID as sender     *)
(*   Reply(r)      the responder sends its next reply to request r's sender PID:  *)
(*                 SendLocal finds the Response (-> Response.Send into a channel  *)
(*                 of capacity 1; a second reply blocks the responder until the   *)
(*                 first is consumed) or finds nothing (-> DeadLetterEvent)       *)
(*   ResStart(r)   Result() is called: the timeout starts; a buffered reply is    *)
(*                 returned at once                                                *)
(*   TimeoutAll    the timeout passes for every Result() that is still waiting    *)
(*   Elapse        more than the timeout passes while replies sit uncollected     *)
(* Whichever way Result() returns, the deferred Registry.Remove unregisters the   *)
(* response PID.  FixedPid = TRUE models an implementation that reuses one        *)
(* response PID for consecutive requests (regression config: must fail).          *)
EXTENDS Integers, Sequences, FiniteSets, TLC, Json

CONSTANTS NReq, MaxReplies, MaxOps, FixedPid, UnregOnTimeoutOnly, AllowBlocking, Export,
          ZeroFrom     \* requests numbered ZeroFrom and above are issued with a timeout of zero (a used-up budget)

Reqs == 1..NReq
VARIABLES requested, registered, buf, waiting, started, outcome, replies, blocked, dead, nops, hist
vars == <<requested, registered, buf, waiting, started, outcome, replies, blocked, dead, nops, hist>>

None == <<0, 0>>
PidOf(r) == IF FixedPid THEN 1 ELSE r          \* which registry entry request r's Response occupies

Init ==
  /\ requested = [r \in Reqs |-> FALSE] /\ registered = [p \in Reqs |-> 0]      \* registry: pid -> request whose Response it holds (0 = free)
  /\ buf = [r \in Reqs |-> <<>>] /\ waiting = [r \in Reqs |-> FALSE] /\ started = [r \in Reqs |-> FALSE]
  /\ outcome = [r \in Reqs |-> None] /\ replies = [r \in Reqs |-> 0] /\ blocked = None
  /\ dead = <<>> /\ nops = 0 /\ hist = <<>>

Op(rec) == nops < MaxOps /\ nops' = nops + 1 /\ hist' = Append(hist, rec)
Unreg(r) == [registered EXCEPT ![PidOf(r)] = IF @ = r THEN 0 ELSE @]
Finish(r, res, regB) ==
  /\ outcome' = [outcome EXCEPT ![r] = res]
  /\ registered' = IF UnregOnTimeoutOnly /\ res # <<-1, -1>> THEN regB ELSE [regB EXCEPT ![PidOf(r)] = IF @ = r THEN 0 ELSE @]

ZeroT(r) == r >= ZeroFrom
Req(r) ==
  /\ ~requested[r] /\ \A q \in 1..(r - 1) : requested[q]
  /\ Op([op |-> IF ZeroT(r) THEN "req0" ELSE "req", r |-> r, ret |-> <<>>, blk |-> FALSE])
  /\ requested' = [requested EXCEPT ![r] = TRUE]
  /\ registered' = [registered EXCEPT ![PidOf(r)] = IF @ = 0 THEN r ELSE @]       \* Registry.add: a taken id is left alone
  /\ UNCHANGED <<buf, waiting, started, outcome, replies, blocked, dead>>

(* the responder replies to request r for the (replies[r]+1)-th time *)
Reply(r) ==
  /\ requested[r] /\ replies[r] < MaxReplies /\ blocked = None
  \* a second reply before Result() would block the responder inside Response.Send until Result() runs; whether it
  \* then slips into the channel or becomes a dead letter is a race the property does not speak about: not generated
  /\ (AllowBlocking \/ ~(registered[PidOf(r)] # 0 /\ ~waiting[registered[PidOf(r)]] /\ buf[registered[PidOf(r)]] # <<>>))
  /\ Op([op |-> "reply", r |-> r,      \* ret: the Result() calls that return because of this operation
         ret |-> IF registered[PidOf(r)] # 0 /\ waiting[registered[PidOf(r)]] THEN <<registered[PidOf(r)]>> ELSE <<>>,
         \* blk: this reply finds the channel full and blocks the responder
         blk |-> registered[PidOf(r)] # 0 /\ ~waiting[registered[PidOf(r)]] /\ buf[registered[PidOf(r)]] # <<>>])
  /\ LET k == replies[r] + 1  owner == registered[PidOf(r)] IN
     /\ replies' = [replies EXCEPT ![r] = k]
     /\ IF owner = 0
        THEN /\ dead' = Append(dead, <<r, k>>)                       \* nobody registered under that PID: dead letter
             /\ UNCHANGED <<buf, waiting, outcome, registered, blocked>>
        ELSE IF waiting[owner]
        THEN /\ waiting' = [waiting EXCEPT ![owner] = FALSE]          \* Result() is waiting: it returns this reply
             /\ Finish(owner, <<r, k>>, registered)
             /\ UNCHANGED <<buf, blocked, dead>>
        ELSE IF buf[owner] = <<>>
        THEN /\ buf' = [buf EXCEPT ![owner] = <<<<r, k>>>>]
             /\ UNCHANGED <<waiting, outcome, registered, blocked, dead>>
        ELSE /\ blocked' = <<r, k>>                                   \* channel full: the responder is stuck in Response.Send
             /\ UNCHANGED <<buf, waiting, outcome, registered, dead>>
  /\ UNCHANGED <<requested, started>>

(* Result() of a request with timeout zero and no reply in the channel: the error at once, and the response PID is gone
   like after any other return (with a reply already waiting both branches of the select are ready: not generated) *)
ResStartZero(r) ==
  /\ requested[r] /\ ~started[r] /\ ZeroT(r) /\ buf[r] = <<>>
  /\ Op([op |-> "result", r |-> r, ret |-> <<r>>, blk |-> FALSE])
  /\ started' = [started EXCEPT ![r] = TRUE]
  /\ Finish(r, <<-1, -1>>, registered)
  /\ UNCHANGED <<requested, buf, waiting, replies, blocked, dead>>

ResStart(r) ==
  /\ requested[r] /\ ~started[r] /\ ~ZeroT(r)
  /\ Op([op |-> "result", r |-> r, ret |-> IF buf[r] # <<>> THEN <<r>> ELSE <<>>,
         \* blk: a reply stuck on this request's channel gets through now
         blk |-> buf[r] # <<>> /\ blocked # None /\ registered[PidOf(blocked[1])] = r])
  /\ started' = [started EXCEPT ![r] = TRUE]
  /\ IF buf[r] # <<>>
     THEN /\ Finish(r, buf[r][1], registered)
          /\ IF blocked # None /\ registered[PidOf(blocked[1])] = r
             THEN buf' = [buf EXCEPT ![r] = <<blocked>>] /\ blocked' = None     \* the stuck reply slips into the channel; nobody reads it
             ELSE buf' = [buf EXCEPT ![r] = <<>>] /\ UNCHANGED blocked
          /\ UNCHANGED waiting
     ELSE /\ waiting' = [waiting EXCEPT ![r] = TRUE]
          /\ UNCHANGED <<buf, outcome, registered, blocked>>
  /\ UNCHANGED <<requested, replies, dead>>

(* real time: the timeouts of all Result() calls that are waiting were started within moments of each other, so
   when the first of them passes the others pass too before anything else can be done *)
Waiting == {q \in Reqs : waiting[q]}
RECURSIVE SeqOf(_)
SeqOf(S) == IF S = {} THEN <<>> ELSE LET m == CHOOSE x \in S : \A y \in S : x <= y IN <<m>> \o SeqOf(S \ {m})
TimeoutAll ==
  /\ Waiting # {}
  /\ Op([op |-> "timeout", r |-> 0, ret |-> SeqOf(Waiting), blk |-> FALSE])
  /\ waiting' = [q \in Reqs |-> FALSE]
  /\ outcome' = [q \in Reqs |-> IF waiting[q] THEN <<-1, -1>> ELSE outcome[q]]
  /\ registered' = [p \in Reqs |-> IF registered[p] # 0 /\ waiting[registered[p]] THEN 0 ELSE registered[p]]
  /\ UNCHANGED <<requested, buf, started, replies, blocked, dead>>

(* real time again: more than the timeout passes while no Result() call is waiting and every request that has not been
   collected yet already has its reply in the channel (scatter / gather: send the requests, do something else, collect).
   Nothing changes: those replies arrived within the timeout and Result() has to return them.  Once per behaviour. *)
Uncollected == {q \in Reqs : requested[q] /\ ~started[q]}
Elapse ==
  /\ Waiting = {} /\ Uncollected # {} /\ \A q \in Uncollected : buf[q] # <<>>
  /\ \A i \in 1..Len(hist) : hist[i].op # "elapse"
  /\ Op([op |-> "elapse", r |-> 0, ret |-> <<>>, blk |-> FALSE])
  /\ UNCHANGED <<requested, registered, buf, waiting, started, outcome, replies, blocked, dead>>

Next == TimeoutAll \/ Elapse \/ \E r \in Reqs : Req(r) \/ Reply(r) \/ ResStart(r) \/ ResStartZero(r)
Spec == Init /\ [][Next]_vars

(* ---------------------------------------------------------------- properties (C11) *)
Done(r) == outcome[r] # None
C11_Correlated   == \A r \in Reqs : (Done(r) /\ outcome[r] # <<-1, -1>>) => outcome[r][1] = r      \* no cross-talk
C11_Unregistered == \A r \in Reqs : Done(r) => registered[PidOf(r)] # r                            \* whichever of reply and timeout won
C11_AtMostOnce   == \A r \in Reqs : Done(r) => ~waiting[r]
C11_LateIsDead   ==                                                                               \* a reply after Result() returned is a dead letter
  \A i \in 1..Len(hist) : hist[i].op = "reply" =>
     LET r == hist[i].r
         before == {j \in 1..(i - 1) : \E x \in 1..Len(hist[j].ret) : hist[j].ret[x] = r}
     IN  before # {} => \E d \in 1..Len(dead) : dead[d][1] = r
TypeOK == nops \in 0..MaxOps

Terminal == nops = MaxOps \/ ~ENABLED Next
Case == [hist |-> hist, outcome |-> [r \in Reqs |-> outcome[r]], dead |-> dead, blocked |-> blocked,
         registered |-> [r \in Reqs |-> registered[PidOf(r)] = r], waiting |-> waiting]
ExportCase == (Export /\ Terminal) => PrintT(<<"CASE", ToJson(Case)>>)
=============================================================================
