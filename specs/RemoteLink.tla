------------------------------ MODULE RemoteLink ------------------------------
(* Engines A, B (and C) connected by their remotes (remote/remote.go,              *)
(* stream_router.go, stream_writer.go, stream_reader.go), seen from A's side at    *)
(* the grain of driver operations that are awaited to quiescence:                   *)
(*                                                                                 *)
(*   Burst(t)     sender thread t hands a burst of messages for an actor on B to    *)
(*                A's engine.  The router owns one stream writer per peer address:  *)
(*                no writer -> spawn one, which dials (3 attempts); connected ->    *)
(*                everything is written in order and B's reader delivers it;        *)
(*                unreachable -> the writer shuts down (RemoteUnreachableEvent to   *)
(*                the router and the event stream, unregisters) and everything the  *)
(*                router hands to it until the router has seen the event comes      *)
(*                back as DeadLetterEvent                                           *)
(*   Ask(t)       a request to an actor on B; the reply travels B -> A              *)
(*   PeerDown     B's remote is stopped (Stop().Wait()): nothing listens any more,  *)
(*                A's live connection is lost (-> the writer shuts down as above)   *)
(*   PeerUp       a fresh engine and remote come up on B's address                  *)
(*   BurstOther   a burst to a second peer C that is up all the time: one writer    *)
(*                per address -- what happens to B's stream must not touch C's      *)
(*   StartTwice / StopTwice   Remote.Start on a running remote, Remote.Stop on a    *)
(*                stopped one: harmless                                             *)
(*                                                                                 *)
(* stream: what A's router holds for B's address -- "none" or "live".  (A stale     *)
(* entry exists only between a failed dial and the router handling the unreachable  *)
(* event; operations are issued after that.)  ForgetOnUnreachable = FALSE models a  *)
(* router that never drops the entry (regression config: must fail).                *)
EXTENDS Integers, Sequences, FiniteSets, TLC, Json

CONSTANTS Threads, MaxOps, MaxDown, ForgetOnUnreachable, Export,
          MaxOther      \* bursts to a second peer C (always up): the router owns one writer per address, what happens to
                        \* B's must not touch C's and the other way round

VARIABLES bUp,        \* something listens on B's address
          bGen,       \* incarnation of the engine on B's address
          stream,     \* "none" | "live" | "stale"
          nburst,     \* bursts issued so far per thread
          recv,       \* per thread: the bursts delivered on B, in order of arrival, as <<burst number, B incarnation>>
          dead,       \* bursts whose messages came back as dead letters
          unreach,    \* RemoteUnreachableEvents published on A
          asked, answered, downs, twice, nops, hist,
          recvc       \* bursts delivered on C, in order of arrival (numbered from 1)

vars == <<bUp, bGen, stream, nburst, recv, dead, unreach, asked, answered, downs, twice, nops, hist, recvc>>

Init ==
  /\ bUp = TRUE /\ bGen = 1 /\ stream = "none"
  /\ nburst = [t \in Threads |-> 0] /\ recv = [t \in Threads |-> <<>>] /\ dead = {}
  /\ unreach = 0 /\ asked = 0 /\ answered = 0 /\ downs = 0 /\ twice = {} /\ nops = 0 /\ hist = <<>>
  /\ recvc = <<>>

Op(rec) == nops < MaxOps /\ nops' = nops + 1 /\ hist' = Append(hist, rec)

(* what the step leaves behind, for the harness to wait for and compare *)
Snap(recvN, deadN, unreachN, answeredN, streamN) ==
  [recv |-> recvN, dead |-> deadN, unreach |-> unreachN, answered |-> answeredN, stream |-> streamN, recvc |-> recvc]

(* a burst that makes first contact with the peer is a large one: it is still being handed over while the writer connects *)
Burst(t) ==
  LET k == nburst[t] + 1  big == bUp /\ stream = "none" IN
  /\ nburst' = [nburst EXCEPT ![t] = k]
  /\ IF bUp /\ stream # "stale"
     THEN \* (new) writer connects, or the live one is used: all of it arrives, once, in order
          /\ recv' = [recv EXCEPT ![t] = Append(@, <<k, bGen>>)]
          /\ stream' = "live" /\ UNCHANGED <<dead, unreach>>
          /\ Op([op |-> "burst", t |-> t, big |-> big, k |-> k,
                 after |-> Snap([recv EXCEPT ![t] = Append(@, <<k, bGen>>)], dead, unreach, answered, "live")])
     ELSE IF stream = "stale"
     THEN \* the router still maps the address to a writer that is gone: dead letters, and no new attempt
          /\ dead' = dead \cup {<<t, k>>} /\ UNCHANGED <<recv, unreach, stream>>
          /\ Op([op |-> "burst", t |-> t, big |-> big, k |-> k, after |-> Snap(recv, dead \cup {<<t, k>>}, unreach, answered, "stale")])
     ELSE \* nobody listens: the dial fails three times, the writer shuts down
          /\ dead' = dead \cup {<<t, k>>} /\ unreach' = unreach + 1
          /\ stream' = IF ForgetOnUnreachable THEN "none" ELSE "stale"
          /\ UNCHANGED recv
          /\ Op([op |-> "burst", t |-> t, big |-> big, k |-> k,
                 after |-> Snap(recv, dead \cup {<<t, k>>}, unreach + 1, answered, IF ForgetOnUnreachable THEN "none" ELSE "stale")])
  /\ UNCHANGED <<bUp, bGen, asked, answered, downs, twice, recvc>>

Ask(t) ==
  /\ bUp /\ stream # "stale"
  /\ asked' = asked + 1 /\ answered' = answered + 1 /\ stream' = "live"
  /\ Op([op |-> "ask", t |-> t, big |-> FALSE, k |-> asked + 1, after |-> Snap(recv, dead, unreach, answered + 1, "live")])
  /\ UNCHANGED <<bUp, bGen, nburst, recv, dead, unreach, downs, twice, recvc>>

PeerDown ==
  /\ bUp /\ downs < MaxDown
  /\ bUp' = FALSE /\ downs' = downs + 1
  \* a live connection is lost: the writer notices, shuts down, the router forgets it
  /\ unreach' = IF stream = "live" THEN unreach + 1 ELSE unreach
  /\ stream' = IF stream = "live" THEN (IF ForgetOnUnreachable THEN "none" ELSE "stale") ELSE stream
  /\ Op([op |-> "down", t |-> "-", big |-> FALSE, k |-> 0,
         after |-> Snap(recv, dead, IF stream = "live" THEN unreach + 1 ELSE unreach, answered,
                        IF stream = "live" THEN (IF ForgetOnUnreachable THEN "none" ELSE "stale") ELSE stream)])
  /\ UNCHANGED <<bGen, nburst, recv, dead, asked, answered, twice, recvc>>

PeerUp ==
  /\ ~bUp
  /\ bUp' = TRUE /\ bGen' = bGen + 1
  /\ Op([op |-> "up", t |-> "-", big |-> FALSE, k |-> 0, after |-> Snap(recv, dead, unreach, answered, stream)])
  /\ UNCHANGED <<stream, nburst, recv, dead, unreach, asked, answered, downs, twice, recvc>>

StartTwice ==
  /\ "start" \notin twice /\ twice' = twice \cup {"start"}
  /\ Op([op |-> "start-twice", t |-> "-", big |-> FALSE, k |-> 0, after |-> Snap(recv, dead, unreach, answered, stream)])
  /\ UNCHANGED <<bUp, bGen, stream, nburst, recv, dead, unreach, asked, answered, downs, recvc>>

StopTwice ==
  /\ ~bUp /\ "stop" \notin twice /\ twice' = twice \cup {"stop"}
  /\ Op([op |-> "stop-twice", t |-> "-", big |-> FALSE, k |-> 0, after |-> Snap(recv, dead, unreach, answered, stream)])
  /\ UNCHANGED <<bUp, bGen, stream, nburst, recv, dead, unreach, asked, answered, downs, recvc>>

(* a burst to the other peer: its writer is C's own; always delivered, whatever state B's stream is in *)
BurstOther ==
  /\ Len(recvc) < MaxOther
  /\ recvc' = Append(recvc, Len(recvc) + 1)
  /\ Op([op |-> "burstc", t |-> "-", big |-> FALSE, k |-> Len(recvc) + 1,
         after |-> [Snap(recv, dead, unreach, answered, stream) EXCEPT !.recvc = Append(recvc, Len(recvc) + 1)]])
  /\ UNCHANGED <<bUp, bGen, stream, nburst, recv, dead, unreach, asked, answered, downs, twice>>

Next == \/ \E t \in Threads : Burst(t)
        \/ BurstOther
        \/ \E t \in Threads : Ask(t)
        \/ PeerDown \/ PeerUp \/ StartTwice \/ StopTwice
Spec == Init /\ [][Next]_vars

(* ---------------------------------------------------------------- properties (C17) *)
Issued == UNION {{<<t, k>> : k \in 1..nburst[t]} : t \in Threads}
Arrived == UNION {{<<t, recv[t][j][1]>> : j \in 1..Len(recv[t])} : t \in Threads}
(* every burst is delivered or dead-lettered, never both, never twice *)
C17_OnceOrDead == /\ Arrived \cup dead = Issued /\ Arrived \cap dead = {}
                  /\ \A t \in Threads : \A a, b \in 1..Len(recv[t]) : a # b => recv[t][a][1] # recv[t][b][1]
(* per sender in sending order *)
C17_InOrder == \A t \in Threads : \A a, b \in 1..Len(recv[t]) : a < b => recv[t][a][1] < recv[t][b][1]
(* a burst sent while the peer is up is delivered: a fresh attempt is made after an unreachable episode *)
C17_FreshAttempt == [][\A t \in Threads : (bUp /\ nburst'[t] = nburst[t] + 1) => Len(recv'[t]) = Len(recv[t]) + 1]_vars
C17_Replies == answered = asked
C17_Reported == (dead # {}) => unreach > 0
TypeOK == nops \in 0..MaxOps

Terminal == nops = MaxOps
ExportCase == (Export /\ Terminal) => PrintT(<<"CASE", ToJson([hist |-> hist])>>)
=============================================================================
