---- MODULE MCWire ----
EXTENDS Wire
\* PIDs: c1/c2 (and k1/k2) differ only in where address ends and id begins
T1 == [a |-> "node", i |-> "t/1"]
TC1 == [a |-> "xy", i |-> "z/1"]
TC2 == [a |-> "xyz", i |-> "/1"]
S1 == [a |-> "peer", i |-> "s/1"]
SC1 == [a |-> "ab", i |-> "c/9"]
SC2 == [a |-> "abc", i |-> "/9"]
MCTargets == {T1, TC1, TC2}
MCSenders == {S1, SC1, SC2}
MCTargets2 == {T1, TC1}
MCSenders2 == {S1, SC1}
MCSendersC == {SC1, SC2}
MCSenders1 == {SC1}
\* senders on different nodes that happen to have the same id (forwarded senders carry foreign addresses)
SD1 == [a |-> "n1", i |-> "s/1"]
SD2 == [a |-> "n2", i |-> "s/1"]
MCSendersD == {SD1, SD2}
MCTargetsC == {TC1, TC2}
MCTypes1 == {"remote.TestMessage"}
MCData1 == {"d1"}
HIdxTiny == {0, 2}
MCTypes == {"remote.TestMessage", "actor.Ping", "actor.PID"}
MCTypesReg == {"actor.PID"}
\* two protobuf types defined at run time: one Go type (*dynamicpb.Message) behind both
MCTypesDyn == {"verifdyn.Label", "verifdyn.Reading"}
MCDataBig == {"d1", "big"}
MCData == {"d1", "d2"}
\* hostile envelope space
HTy == {<<>>, <<"remote.TestMessage">>, <<"remote.TestMessage", "nope.Unknown">>, <<"nope.Unknown">>}
HTg == {<<>>, <<T1>>, <<T1, TC1>>}
HSd == {<<>>, <<S1>>, <<S1, SC1>>}
HIdxFull == {-2, -1, 0, 1, 2, 2147483647}
HIdxSmall == {-1, 0, 1}
HDat == {"d1", "garbage"}
\* a local stream writer process can be the target of an inbound message like any other registered process
TW == [a |-> "node", i |-> "stream/127.0.0.1:1"]
HTgW == {<<TW>>, <<T1, TW>>}
\* so can the response process of an outstanding request (its owner collects the result a moment later)
TR == [a |-> "node", i |-> "response/live"]
HTgR == {<<TR>>, <<T1, TR>>}
\* streams of two envelopes: the tables of the second one are shorter / different
HTy2 == {<<"remote.TestMessage">>, <<"remote.TestMessage", "actor.Ping">>, <<"actor.Ping", "remote.TestMessage">>}
HTg1 == {<<T1>>, <<T1, TC1>>}
HSd0 == {<<>>, <<S1>>}
HIdx01 == {0, 1}
HDat1 == {"d1"}
====
