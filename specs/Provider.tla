------------------------------- MODULE Provider -------------------------------
(* The self-managed cluster provider of cluster/selfmanaged.go: its member list  *)
(* and what it tells its agent and its peers, one action per message handled by   *)
(* SelfManaged.Receive.                                                            *)
(*   Handshake(m)    a peer introduces itself: add it, answer with the complete    *)
(*                   member list, report the list to the agent                      *)
(*   MembersMsg(L)   a member list from a peer: add every member, report           *)
(*   Unreachable(a)  RemoteUnreachableEvent for address a (through the event child *)
(*                   as memberLeave): remove the member with that host, report;    *)
(*                   an address that belongs to no member changes nothing          *)
(* A member is identified by its id; its address (host) is an attribute fixed when  *)
(* the member is added.  A peer in AltHosts may introduce itself under a second     *)
(* address (a node that came back under its configured id on a fresh port).         *)
(* FixUnknown = FALSE models the code before the repair: removeMember(nil)         *)
(* dereferences nil, the provider actor is restarted and starts over with itself.  *)
EXTENDS Integers, Sequences, FiniteSets, TLC

CONSTANTS Self, Peers, Unknown, MaxOps, FixUnknown, AddAll,
          HandshakeSet, MemberLists, UnreachSet,   \* the inputs used (subsets of the full input alphabet)
          KeepHist,                                \* TRUE: the input history is part of the state (every sequence is a path of its own)
          AltHosts                                 \* peers that may also show up under their second address

Universe == {Self} \cup Peers
VARIABLES members, agent, reply, restarts, nops, lastop, hist,
          host        \* id -> the address the member was added with (meaningful for members)
vars == <<members, agent, reply, restarts, nops, lastop, hist, host>>

Addr(m, alt) == IF alt THEN m \o "2" ELSE m
AltAddrs == {Addr(m, TRUE) : m \in AltHosts}

Init == /\ members = {Self} /\ agent = {Self} /\ reply = {} /\ restarts = 0 /\ nops = 0 /\ lastop = "none" /\ hist = <<>>
        /\ host = [m \in Universe |-> m]

Handshake(m, alt) ==
  /\ nops < MaxOps /\ m \in HandshakeSet /\ (alt => m \in AltHosts)
  /\ hist' = IF KeepHist THEN Append(hist, <<"h", m, alt>>) ELSE hist
  /\ members' = members \cup {m}
  /\ host' = IF m \in members THEN host ELSE [host EXCEPT ![m] = Addr(m, alt)]     \* a member that is listed keeps its entry
  /\ reply' = members \cup {m}            \* Members{...} sent to the sender of the handshake
  /\ agent' = members \cup {m}
  /\ nops' = nops + 1 /\ lastop' = "handshake" /\ UNCHANGED restarts

(* a member list from a peer: the members appear in it under their first address *)
MembersMsg(L) ==
  /\ nops < MaxOps /\ L \in MemberLists
  /\ hist' = IF KeepHist THEN Append(hist, <<"m", L>>) ELSE hist
  /\ members' = IF AddAll THEN members \cup L ELSE members \cup {CHOOSE x \in L : TRUE}
  /\ host' = [m \in Universe |-> IF m \in members' \ members THEN m ELSE host[m]]
  /\ agent' = members'
  /\ reply' = {} /\ nops' = nops + 1 /\ lastop' = "members" /\ UNCHANGED restarts

(* RemoteUnreachableEvent for address a: the member that was added with this address leaves; Unknown is an address no
   member ever has; an address nobody is listed with changes nothing (a late report for the old address of a member
   that is back under a new one, say) *)
Unreachable(a) ==
  /\ nops < MaxOps /\ a \in UnreachSet \cup AltAddrs
  /\ hist' = IF KeepHist THEN Append(hist, <<"u", a>>) ELSE hist
  /\ LET gone == {m \in members : host[m] = a} IN
     IF gone # {}
     THEN members' = members \ gone /\ agent' = members \ gone /\ UNCHANGED restarts
     ELSE IF FixUnknown THEN UNCHANGED <<members, agent, restarts>>
     ELSE members' = {Self} /\ agent' = {Self} /\ restarts' = restarts + 1      \* nil dereference, restart, Started again
  /\ reply' = {} /\ nops' = nops + 1 /\ lastop' = "unreachable" /\ UNCHANGED host

Next == \/ \E m \in HandshakeSet, alt \in BOOLEAN : Handshake(m, alt)
        \/ \E L \in MemberLists : MembersMsg(L)
        \/ \E a \in UnreachSet \cup AltAddrs : Unreachable(a)
Spec == Init /\ [][Next]_vars

(* C20 *)
C20_AgentTold   == agent = members
C20_KeepsRunning == restarts = 0
C20_Action == [][/\ (lastop' = "handshake") => (reply' = members' /\ members \subseteq members')
                 /\ (lastop' = "members") => members \subseteq members'
                 /\ (lastop' = "unreachable") => (members' \subseteq members /\ Cardinality(members \ members') <= 1)]_vars
C20_SelfStays == Self \in members
TypeOK == nops \in 0..MaxOps
=============================================================================
