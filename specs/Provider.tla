------------------------------- MODULE Provider -------------------------------
(* The self-managed cluster provider of cluster/selfmanaged.go: its member list  *)
(* and what it tells its agent and its peers, one action per message handled by   *)
(* SelfManaged.Receive.                                                            *)
(*   Handshake(m)    a peer introduces itself: add it, answer with the complete    *)
(*                   member list, report the list to the agent                      *)
(*   MembersMsg(L)   a member list from a peer: add every member, report           *)
(*   Unreachable(a)  RemoteUnreachableEvent for address a (through the event child *)
(*                   as memberLeave): remove the member with that host, report;    *)
(*                   an address that belongs to no member changes nothing          *)
(* FixUnknown = FALSE models the code before the repair: removeMember(nil)         *)
(* dereferences nil, the provider actor is restarted and starts over with itself.  *)
EXTENDS Integers, Sequences, FiniteSets, TLC

CONSTANTS Self, Peers, Unknown, MaxOps, FixUnknown, AddAll,
          HandshakeSet, MemberLists, UnreachSet,   \* the inputs used (subsets of the full input alphabet)
          KeepHist                                 \* TRUE: the input history is part of the state (every sequence is a path of its own)

Universe == {Self} \cup Peers
VARIABLES members, agent, reply, restarts, nops, lastop, hist
vars == <<members, agent, reply, restarts, nops, lastop, hist>>

Init == members = {Self} /\ agent = {Self} /\ reply = {} /\ restarts = 0 /\ nops = 0 /\ lastop = "none" /\ hist = <<>>

Handshake(m) ==
  /\ nops < MaxOps /\ m \in HandshakeSet
  /\ hist' = IF KeepHist THEN Append(hist, <<"h", m>>) ELSE hist
  /\ members' = members \cup {m}
  /\ reply' = members \cup {m}            \* Members{...} sent to the sender of the handshake
  /\ agent' = members \cup {m}
  /\ nops' = nops + 1 /\ lastop' = "handshake" /\ UNCHANGED restarts

MembersMsg(L) ==
  /\ nops < MaxOps /\ L \in MemberLists
  /\ hist' = IF KeepHist THEN Append(hist, <<"m", L>>) ELSE hist
  /\ members' = IF AddAll THEN members \cup L ELSE members \cup {CHOOSE x \in L : TRUE}
  /\ agent' = members'
  /\ reply' = {} /\ nops' = nops + 1 /\ lastop' = "members" /\ UNCHANGED restarts

(* a member's address is its name here; Unknown is an address no member has *)
Unreachable(a) ==
  /\ nops < MaxOps /\ a \in UnreachSet
  /\ hist' = IF KeepHist THEN Append(hist, <<"u", a>>) ELSE hist
  /\ IF a \in members
     THEN members' = members \ {a} /\ agent' = members \ {a} /\ UNCHANGED restarts
     ELSE IF FixUnknown THEN UNCHANGED <<members, agent, restarts>>
     ELSE members' = {Self} /\ agent' = {Self} /\ restarts' = restarts + 1      \* nil dereference, restart, Started again
  /\ reply' = {} /\ nops' = nops + 1 /\ lastop' = "unreachable"

Next == \/ \E m \in HandshakeSet : Handshake(m)
        \/ \E L \in MemberLists : MembersMsg(L)
        \/ \E a \in UnreachSet : Unreachable(a)
Spec == Init /\ [][Next]_vars

(* C20 *)
C20_AgentTold   == agent = members
C20_KeepsRunning == restarts = 0
C20_Action == [][/\ (lastop' = "handshake") => (reply' = members' /\ members \subseteq members')
                 /\ (lastop' = "members") => members \subseteq members'
                 /\ (lastop' = "unreachable") => (members' \subseteq members /\ Cardinality(members \ members') <= 1)]_vars
C20_SelfStays == Self \in members
TypeOK == nops \in 0..MaxOps
=============================================================================
