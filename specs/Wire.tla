-------------------------------- MODULE Wire --------------------------------
(* Batched wire encoding of remote/stream_writer.go (streamWriter.Invoke:     *)
(* lookupTypeName / lookupPIDs tables, one Message per serialisable element)   *)
(* and its decoding in remote/stream_reader.go (streamReader.Receive: index    *)
(* validation, Deserialize, SendLocal), one action per loop iteration.         *)
(*                                                                             *)
(* Mode "roundtrip": Init picks a batch; the writer loop builds the envelope,   *)
(*   the reader loop decodes it (C15).                                          *)
(* Mode "hostile":   Init picks an arbitrary envelope (tables of any size,      *)
(*   indices negative / past the end / huge, unknown type names, undecodable    *)
(*   payloads); only the reader loop runs (C16).                                *)
(* Fix* = TRUE is the repaired tree; FALSE models the code before the repair    *)
(* (regression configs that must fail).                                         *)
EXTENDS Integers, Sequences, FiniteSets, TLC, Json

CONSTANTS Mode, TargetPool, SenderPool, TypePool, DataPool, MaxBatch,
          HTypeTabs, HTargetTabs, HSenderTabs, HIdx, HData, HMaxMsgs, HMaxEnvs,
          FixNoSender, FixKey, FixHole, FixNonProto, FixBounds, Export

VARIABLES batch,                                  \* roundtrip input
          phase, i,                               \* "write" | "read" | "done"; loop index (1-based)
          typeNames, targets, senders, messages,  \* the envelope (tables 1-based here, indices 0-based as on the wire)
          delivered, err, panicked,               \* what SendLocal was called with; stream ended with an error; goroutine died
          later, base, first                      \* hostile mode: the envelopes still to come on this stream; deliveries
                                                  \* made before the current envelope; the whole stream (for the export)

vars == <<batch, phase, i, typeNames, targets, senders, messages, delivered, err, panicked, later, base, first>>

NilPID == [a |-> "nil", i |-> "nil"]
Registered == TypePool \cup {"empty"}
NoSender == -1

(* ---------------------------------------------------------------- writer *)
Key(p) == IF FixKey THEN p.a \o "|" \o p.i ELSE p.a \o p.i        \* pidKey{address,id} vs hash(address ++ id)
IndexOfKey(tab, p) == CHOOSE k \in 1..Len(tab) : Key(tab[k]) = Key(p)
HasKey(tab, p) == \E k \in 1..Len(tab) : Key(tab[k]) = Key(p)
IndexOf(tab, x) == CHOOSE k \in 1..Len(tab) : tab[k] = x
Has(tab, x) == \E k \in 1..Len(tab) : tab[k] = x

Elements == [target : TargetPool, sender : SenderPool \cup {NilPID}, type : TypePool, data : DataPool, ser : {"ok"}]
            \cup [target : TargetPool, sender : SenderPool \cup {NilPID}, type : {CHOOSE t \in TypePool : TRUE},
                  data : {CHOOSE d \in DataPool : TRUE}, ser : {"merr", "nonproto"}]
RECURSIVE SeqsUpTo(_, _)
SeqsUpTo(S, n) == IF n = 0 THEN {<<>>} ELSE LET P == SeqsUpTo(S, n - 1) IN P \cup {Append(s, x) : s \in {q \in P : Len(q) = n - 1}, x \in S}
Batches == SeqsUpTo(Elements, MaxBatch) \ {<<>>}

Hole == [data |-> "empty", ti |-> 0, si |-> 0, tni |-> 0]     \* a nil *Message marshals as an empty message

WStep ==
  /\ phase = "write" /\ ~panicked
  /\ IF i > Len(batch)
     THEN /\ phase' = "read" /\ i' = 1
          /\ UNCHANGED <<typeNames, targets, senders, messages, panicked>>
     ELSE LET m == batch[i] IN
          /\ i' = i + 1 /\ UNCHANGED phase
          /\ IF m.ser = "nonproto" /\ ~FixNonProto
             THEN panicked' = TRUE /\ UNCHANGED <<typeNames, targets, senders, messages>>
             ELSE IF m.ser # "ok" /\ FixHole
             THEN UNCHANGED <<typeNames, targets, senders, messages, panicked>>       \* dropped on its own
             ELSE LET tn2 == IF Has(typeNames, m.type) THEN typeNames ELSE Append(typeNames, m.type)
                      tg2 == IF HasKey(targets, m.target) THEN targets ELSE Append(targets, m.target)
                      sd2 == IF m.sender = NilPID \/ HasKey(senders, m.sender) THEN senders ELSE Append(senders, m.sender)
                      si  == IF m.sender = NilPID THEN (IF FixNoSender THEN NoSender ELSE 0) ELSE IndexOfKey(sd2, m.sender) - 1
                  IN /\ typeNames' = tn2 /\ targets' = tg2 /\ senders' = sd2 /\ UNCHANGED panicked
                     /\ messages' = Append(messages,
                                      IF m.ser # "ok" THEN Hole      \* pre-repair: tables filled, entry left nil
                                      ELSE [data |-> m.data, ti |-> IndexOfKey(tg2, m.target) - 1, si |-> si,
                                            tni |-> IndexOf(tn2, m.type) - 1])
  /\ UNCHANGED <<batch, delivered, err, later, base, first>>

(* ---------------------------------------------------------------- reader *)
InRange(ix, tab) == ix >= 0 /\ ix < Len(tab)
ValidSender(ix, tab) == ix = NoSender \/ (ix = 0 /\ Len(tab) = 0) \/ InRange(ix, tab)
ValidMsg(m) == InRange(m.tni, typeNames) /\ InRange(m.ti, targets) /\ ValidSender(m.si, senders)
Decodable(m) == typeNames[m.tni + 1] \in Registered /\ m.data # "garbage"
SenderOf(m) == IF m.si = NoSender \/ Len(senders) = 0 THEN NilPID ELSE senders[m.si + 1]
DeliveryOf(m) == [target |-> targets[m.ti + 1], type |-> typeNames[m.tni + 1], data |-> m.data, sender |-> SenderOf(m)]

RStep ==
  /\ phase = "read" /\ ~panicked
  /\ IF i > Len(messages)
     THEN IF later = <<>> THEN phase' = "done" /\ UNCHANGED <<i, delivered, err, panicked, typeNames, targets, senders, messages, later, base>>
          ELSE \* stream.Recv() returns the next envelope of the same stream
               /\ typeNames' = Head(later).typeNames /\ targets' = Head(later).targets /\ senders' = Head(later).senders
               /\ messages' = Head(later).messages /\ later' = Tail(later) /\ base' = Len(delivered) /\ i' = 1
               /\ UNCHANGED <<phase, delivered, err, panicked>>
     ELSE /\ UNCHANGED <<typeNames, targets, senders, messages, later, base>>
          /\ LET m == messages[i] IN
               IF ~ValidMsg(m)
               THEN IF FixBounds THEN err' = TRUE /\ phase' = "done" /\ UNCHANGED <<i, delivered, panicked>>
                                 ELSE panicked' = TRUE /\ UNCHANGED <<i, delivered, err, phase>>
               ELSE IF ~Decodable(m)
               THEN err' = TRUE /\ phase' = "done" /\ UNCHANGED <<i, delivered, panicked>>
               ELSE delivered' = Append(delivered, DeliveryOf(m)) /\ i' = i + 1 /\ UNCHANGED <<phase, err, panicked>>
  /\ UNCHANGED <<batch, first>>

(* ---------------------------------------------------------------- init *)
HMsgs == [data : HData, ti : HIdx, si : HIdx, tni : HIdx]
HEnvs == [typeNames : HTypeTabs, targets : HTargetTabs, senders : HSenderTabs, messages : SeqsUpTo(HMsgs, HMaxMsgs) \ {<<>>}]
Init ==
  /\ delivered = <<>> /\ err = FALSE /\ panicked = FALSE /\ i = 1
  /\ base = 0
  /\ IF Mode = "roundtrip"
     THEN /\ batch \in Batches /\ phase = "write" /\ later = <<>> /\ first = <<>>
          /\ typeNames = <<>> /\ targets = <<>> /\ senders = <<>> /\ messages = <<>>
     ELSE /\ batch = <<>> /\ phase = "read"
          /\ typeNames \in HTypeTabs /\ targets \in HTargetTabs /\ senders \in HSenderTabs
          /\ messages \in (SeqsUpTo(HMsgs, HMaxMsgs) \ {<<>>})
          /\ later \in SeqsUpTo(HEnvs, HMaxEnvs - 1)
          /\ first = <<[typeNames |-> typeNames, targets |-> targets, senders |-> senders, messages |-> messages]>> \o later

Next == WStep \/ RStep
Spec == Init /\ [][Next]_vars

(* ---------------------------------------------------------------- properties *)
Want == LET ok == SelectSeq(batch, LAMBDA m : m.ser = "ok")
        IN [k \in 1..Len(ok) |-> [target |-> ok[k].target, type |-> ok[k].type, data |-> ok[k].data, sender |-> ok[k].sender]]
IsPrefix(s, t) == Len(s) <= Len(t) /\ \A k \in 1..Len(s) : s[k] = t[k]

(* C15: same number, same order, each to its own target, payload and sender; unserialisable ones dropped alone *)
C15_Prefix    == Mode = "roundtrip" => IsPrefix(delivered, Want)
C15_RoundTrip == (Mode = "roundtrip" /\ phase = "done") => (delivered = Want /\ ~err)
C15_NodeLives == Mode = "roundtrip" => ~panicked
(* C16: never a panic; a delivery only for a message whose own indices are valid, to the target / with the type they name *)
C16_NoPanic   == ~panicked
(* the k-th delivery of the current envelope answers its k-th message *)
C16_OnlyAddressed ==
  \A k \in 1..(Len(delivered) - base) :
     /\ k <= Len(messages) /\ ValidMsg(messages[k]) /\ Decodable(messages[k])
     /\ delivered[base + k].target = targets[messages[k].ti + 1] /\ delivered[base + k].type = typeNames[messages[k].tni + 1]
C16_ErrOnlyOnBad ==
  err => (Len(delivered) - base < Len(messages) /\ ~(ValidMsg(messages[Len(delivered) - base + 1]) /\ Decodable(messages[Len(delivered) - base + 1])))
C16_AllOrError == phase = "done" => (err \/ (Len(delivered) - base = Len(messages) /\ later = <<>>))

(* ---------------------------------------------------------------- case export (B-table) *)
Case == [mode |-> Mode, batch |-> batch, envs |-> first, delivered |-> delivered, err |-> err]
ExportCase == (Export /\ phase = "done") => PrintT(<<"CASE", ToJson(Case)>>)
TypeOK == phase \in {"write", "read", "done"} /\ i \in 1..100
=============================================================================
