-------------------------------- MODULE Actor --------------------------------
(* Process lifecycle of actor/process.go + engine.go + context.go, shaped like   *)
(* the code: one executor record per actor flattens the recursion                *)
(*   Invoke -> recover -> tryRestart -> Start -> Invoke(mbuffer) -> ...          *)
(* with the code's own book-keeping (nproc, mbuffer, restarts, inbox status,     *)
(* children map).  cleanup is split into its phases (leave parent's map,         *)
(* snapshot children, poison + wait per child, stop inbox + unregister, Stopped, *)
(* event + cancel).  The inbox is a FIFO + status (justified by Inbox.tla).      *)
(* Every call of Receive is its own action ("gate"): DoInit, DoStarted,          *)
(* DoDeliver, DrainDeliver, RecoverStopped, ClStopped.                           *)
(* Fix_* = TRUE models the repaired tree, FALSE the code before the repair       *)
(* (regression configs that must fail).                                          *)
EXTENDS Integers, Sequences, FiniteSets, TLC

CONSTANTS Actors, Parent, Roots, KidsOf, MaxRestarts,
          NMsg, SendTo, Toks, TokTarget, TokGraceful,
          Faults, IFaults, CrashKinds, Batch, Eager, MaxDup,
          RespawnKids, \* TRUE: every incarnation's Started handler calls SpawnChild for its children again (a duplicate while
                       \* the child is registered, a fresh child once the old one has gone)
          Succ,      \* actor -> the successor it spawns under its own id from inside its final Stopped handler ("none": nobody)
          FixD1, FixD2, FixD3, FixD4, FixD5, FixD12, FixD13, FixD14

VARIABLES reg, inc, restarts, status, ring, mbuf, closed, children, ex, tok,
          faults, ifaults, nextMsg, spawned, spret, dead, overlap, dups,
          log, events, accepted, sentBefore, acted, done, issued

vars == <<reg, inc, restarts, status, ring, mbuf, closed, children, ex, tok,
          faults, ifaults, nextMsg, spawned, spret, dead, overlap, dups,
          log, events, accepted, sentBefore, acted, done, issued>>

P == INSTANCE ActorProps

NoTok  == <<"none", "none">>
NilTok == <<"nil", "nil">>
PTok(c) == <<"par", c>>
AllToks == Toks \cup {PTok(c) : c \in Actors}
TargetOf(t) == IF t \in Toks THEN TokTarget[t] ELSE t[2]

User(k)    == [t |-> "user", id |-> k, tok |-> NoTok, g |-> FALSE]
Pill(t, g) == [t |-> "pill", id |-> 0, tok |-> t, g |-> g]

NoEx == [pc |-> "none", base |-> "none", batch |-> <<>>, i |-> 0, nproc |-> 0, j |-> 0,
         replay |-> FALSE, cancel |-> NoTok, from |-> "none", todo |-> <<>>, crash |-> "none", snap |-> <<>>, pv |-> "none"]
RunEx == [NoEx EXCEPT !.pc = "runloop", !.base = "run"]

Min(x, y) == IF x < y THEN x ELSE y
Perms(S) == {f \in [1..Cardinality(S) -> S] : \A x, y \in 1..Cardinality(S) : x # y => f[x] # f[y]}

Init ==
  /\ reg = [a \in Actors |-> FALSE] /\ inc = [a \in Actors |-> 0] /\ restarts = [a \in Actors |-> 0]
  /\ status = [a \in Actors |-> "stopped"] /\ ring = [a \in Actors |-> <<>>] /\ mbuf = [a \in Actors |-> <<>>]
  /\ closed = [a \in Actors |-> FALSE] /\ children = [a \in Actors |-> {}]
  /\ ex = [a \in Actors |-> NoEx] /\ tok = [t \in AllToks |-> "unused"]
  /\ faults = Faults /\ ifaults = IFaults /\ nextMsg = 1 /\ spawned = {} /\ spret = {} /\ dead = FALSE /\ overlap = FALSE /\ dups = 0
  /\ log = <<>> /\ events = <<>> /\ accepted = [a \in Actors |-> {}]
  /\ sentBefore = [t \in Toks |-> {}] /\ acted = [a \in Actors |-> NoTok]
  /\ done = [t \in Toks |-> [at |-> -1, reg |-> FALSE, imm |-> FALSE]] /\ issued = <<>>

Ev(e, a, n) == [e |-> e, a |-> a, n |-> n]
Entry(a, kind, id, mw) == [a |-> a, inc |-> inc[a], kind |-> kind, id |-> id, mw |-> mw, kids |-> children[a],
                           alive |-> {d \in P!Desc(a) : reg[d]}, sreg |-> reg[a],
                           dn |-> {t \in Toks : tok[t] = "done"}]

(* c: "none" = the handler returns, "plain" = it panics with an ordinary value, "internal" = it panics with an
   *InternalError (restarted without touching the restart budget) *)
PanicKinds == {"none", "plain", "internal"}
PredOf(b) == {a \in Actors : Succ[a] = b}
Succeeded(a) == Succ[a] # "none" /\ Succ[a] \in spawned      \* the id now belongs to the successor

CanCrash(kind, c) == c = "none" \/ (kind \in CrashKinds /\ IF c = "plain" THEN faults > 0 ELSE ifaults > 0)
Spend(c) == /\ faults' = IF c = "plain" THEN faults - 1 ELSE faults
            /\ ifaults' = IF c = "internal" THEN ifaults - 1 ELSE ifaults

---------------------------------------------------------------------------
(* gates and settledness *)
DeliversStopped(a) == ~(FixD12 /\ ex[a].pv = "plain" /\ restarts[a] = MaxRestarts[a])    \* restartsExceeded(v)
AtGate(a) ==
  LET e == ex[a] IN
  \/ e.pc \in {"init", "started", "deliver", "cl_stopped"}
  \/ e.pc = "drain" /\ e.j <= Len(e.batch) /\ e.batch[e.j].t = "user"
  \/ e.pc = "recover" /\ DeliversStopped(a)
Blocked(a) ==
  LET e == ex[a] IN
  \/ e.pc = "none"
  \/ e.pc = "cl_wait" /\ tok[PTok(Head(e.snap))] # "done"
  \/ e.pc = "spawnwait" /\ Head(e.todo) \notin spret
  \/ e.pc = "cl_succwait" /\ Succ[a] \notin spret
InternalEnabled(a) == ~AtGate(a) /\ ~Blocked(a)
Settled == \A a \in Actors : ~InternalEnabled(a)
EnvOK == ~dead /\ ~overlap /\ (Eager => Settled)
GateOK == Eager => Settled   \* scenario generation: a delivery is granted only when everything else has settled

---------------------------------------------------------------------------
(* Engine.SendLocal: registry lookup, push, try-schedule -- or dead letter.
   `base` = functions already updated by the caller for its own purposes *)
EnqEffect(a, m, ringB, statusB, exB, eventsB) ==
  IF reg[a]
  THEN /\ ring' = [ringB EXCEPT ![a] = Append(@, m)]
       /\ IF statusB[a] = "idle"
          THEN /\ status' = [statusB EXCEPT ![a] = "running"]
               /\ IF exB[a].pc = "none" THEN ex' = [exB EXCEPT ![a] = RunEx] /\ UNCHANGED overlap
                  ELSE ex' = exB /\ overlap' = TRUE
          ELSE status' = statusB /\ ex' = exB /\ UNCHANGED overlap
       /\ events' = eventsB
  ELSE /\ events' = Append(eventsB, Ev("DeadLetter", a, IF m.t = "user" THEN m.id ELSE 0))
       /\ ring' = ringB /\ status' = statusB /\ ex' = exB /\ UNCHANGED overlap

Spawn(r) ==
  /\ EnvOK /\ r \in Roots /\ r \notin spawned
  /\ spawned' = spawned \cup {r}
  /\ reg' = [reg EXCEPT ![r] = TRUE]
  /\ ex' = [ex EXCEPT ![r] = [NoEx EXCEPT !.pc = "prod", !.base = "spawn"]]
  /\ UNCHANGED <<inc, restarts, status, ring, mbuf, closed, children, tok, faults, ifaults, nextMsg, spret, dead, overlap, dups,
                 log, events, accepted, sentBefore, acted, done, issued>>

(* Engine.Spawn with an id that was spawned before: a duplicate while the actor is registered (Registry.add publishes
   ActorDuplicateIdEvent and starts nothing); a fresh process once the old one has completely gone *)
SpawnAgain(r) ==
  /\ EnvOK /\ r \in Roots /\ r \in spawned /\ dups < MaxDup /\ Succ[r] = "none"
  /\ dups' = dups + 1
  /\ IF reg[r]
     THEN /\ events' = Append(events, Ev("DuplicateId", r, 0))
          /\ UNCHANGED <<reg, ex, status, ring, mbuf, closed, restarts, children>>
     ELSE /\ ex[r].pc = "none"
          /\ reg' = [reg EXCEPT ![r] = TRUE]
          /\ ex' = [ex EXCEPT ![r] = [NoEx EXCEPT !.pc = "prod", !.base = "spawn"]]
          /\ status' = [status EXCEPT ![r] = "stopped"] /\ ring' = [ring EXCEPT ![r] = <<>>] /\ mbuf' = [mbuf EXCEPT ![r] = <<>>]
          /\ closed' = [closed EXCEPT ![r] = FALSE] /\ restarts' = [restarts EXCEPT ![r] = 0]
          /\ children' = [children EXCEPT ![r] = {}]
          /\ UNCHANGED events
  /\ UNCHANGED <<inc, tok, faults, ifaults, nextMsg, spawned, spret, dead, overlap, log, accepted, sentBefore, acted, done, issued>>

Send(a) ==
  /\ EnvOK /\ a \in SendTo /\ a \in spawned /\ nextMsg <= NMsg /\ ~Succeeded(a)
  /\ EnqEffect(a, User(nextMsg), ring, status, ex, events)
  /\ accepted' = IF reg[a] THEN [accepted EXCEPT ![a] = @ \cup {nextMsg}] ELSE accepted
  /\ nextMsg' = nextMsg + 1
  /\ UNCHANGED <<reg, inc, restarts, mbuf, closed, children, tok, faults, ifaults, spawned, spret, dead, dups, log, sentBefore, acted, done, issued>>

StopReq(t) ==
  /\ EnvOK /\ t \in Toks /\ tok[t] = "unused"
  /\ ~Succeeded(TokTarget[t]) /\ (PredOf(TokTarget[t]) = {} \/ TokTarget[t] \in spawned)
  /\ LET a == TokTarget[t] IN
     /\ sentBefore' = [sentBefore EXCEPT ![t] = accepted[a]]
     /\ EnqEffect(a, Pill(t, TokGraceful[t]), ring, status, ex, events)
     /\ tok' = [tok EXCEPT ![t] = IF reg[a] THEN "sent" ELSE "done"]
     /\ done' = IF reg[a] THEN done ELSE [done EXCEPT ![t] = [at |-> Len(log), reg |-> FALSE, imm |-> TRUE]]
     /\ issued' = Append(issued, t)
  /\ UNCHANGED <<reg, inc, restarts, mbuf, closed, children, faults, ifaults, nextMsg, spawned, spret, dead, dups, log, accepted, acted>>

---------------------------------------------------------------------------
(* process.Start *)
Alive == ~dead /\ ~overlap
ExStep(a, e2) == Alive /\ ex' = [ex EXCEPT ![a] = e2]
Frame == <<reg, inc, restarts, status, ring, mbuf, closed, children, tok, faults, ifaults, nextMsg, spawned, spret, dead, overlap, dups,
           log, events, accepted, sentBefore, acted, done, issued>>

Prod(a) ==
  /\ ex[a].pc = "prod"
  /\ inc' = [inc EXCEPT ![a] = @ + 1]
  /\ ExStep(a, [ex[a] EXCEPT !.pc = "init"])
  /\ UNCHANGED <<reg, restarts, status, ring, mbuf, closed, children, tok, faults, ifaults, nextMsg, spawned, spret, dead, overlap, dups,
                 log, events, accepted, sentBefore, acted, done, issued>>

DoInit(a, c) ==
  /\ GateOK /\ ex[a].pc = "init" /\ CanCrash("Init", c)
  /\ log' = Append(log, Entry(a, "Init", 0, TRUE))
  /\ Spend(c)
  /\ IF c # "none" THEN /\ UNCHANGED events
                        /\ ExStep(a, [ex[a] EXCEPT !.pc = "recover", !.from = "start", !.pv = c])
          ELSE /\ events' = Append(events, Ev("Initialized", a, 0))
               /\ ExStep(a, [ex[a] EXCEPT !.pc = "started"])
  /\ UNCHANGED <<reg, inc, restarts, status, ring, mbuf, closed, children, tok, nextMsg, spawned, spret, dead, overlap, dups,
                 accepted, sentBefore, acted, done, issued>>

DoStarted(a, c) ==
  /\ GateOK /\ ex[a].pc = "started" /\ CanCrash("Started", c)
  /\ log' = Append(log, Entry(a, "Started", 0, TRUE))
  /\ ExStep(a, [ex[a] EXCEPT !.pc = "spawnkids", !.todo = KidsOf[a], !.crash = c])
  /\ UNCHANGED <<reg, inc, restarts, status, ring, mbuf, closed, children, tok, faults, ifaults, nextMsg, spawned, spret, dead, overlap, dups,
                 events, accepted, sentBefore, acted, done, issued>>

(* Context.SpawnChild calls inside the Started handler, then the handler returns or panics *)
SpawnKids(a) ==
  /\ ex[a].pc = "spawnkids"
  /\ LET e == ex[a] IN
     IF e.todo = <<>>
     THEN /\ Spend(e.crash)
          /\ IF e.crash # "none"
             THEN /\ UNCHANGED events
                  /\ ExStep(a, [e EXCEPT !.pc = "recover", !.from = "start", !.crash = "none", !.pv = e.crash])
             ELSE /\ events' = Append(events, Ev("Started", a, 0))
                  /\ ExStep(a, [e EXCEPT !.pc = "afterstarted"])
          /\ UNCHANGED <<reg, children, spawned, status, ring, mbuf, closed, restarts>>
     ELSE LET c == Head(e.todo) IN
          IF c \in spawned /\ ~RespawnKids
          THEN \* the scripted Started handler spawns each child once (first incarnation)
               /\ ExStep(a, [e EXCEPT !.todo = Tail(@)])
               /\ UNCHANGED <<reg, children, faults, ifaults, spawned, events, status, ring, mbuf, closed, restarts>>
          ELSE IF c \in spawned /\ reg[c]
          THEN \* SpawnChild of a child that is registered: Registry.add publishes ActorDuplicateIdEvent and starts nothing
               /\ events' = Append(events, Ev("DuplicateId", c, 0))
               /\ ExStep(a, [e EXCEPT !.todo = Tail(@)])
               /\ UNCHANGED <<reg, children, faults, ifaults, spawned, status, ring, mbuf, closed, restarts>>
          ELSE IF c \in spawned
          THEN \* the old child has gone (one process per name: it has to have gone completely): a fresh child under the same id
               /\ ex[c].pc = "none"
               /\ reg' = [reg EXCEPT ![c] = TRUE]
               /\ Alive
               /\ ex' = [ex EXCEPT ![a] = [e EXCEPT !.pc = "spawnwait"],
                                   ![c] = [NoEx EXCEPT !.pc = "prod", !.base = "spawn"]]
               /\ status' = [status EXCEPT ![c] = "stopped"] /\ ring' = [ring EXCEPT ![c] = <<>>] /\ mbuf' = [mbuf EXCEPT ![c] = <<>>]
               /\ closed' = [closed EXCEPT ![c] = FALSE] /\ restarts' = [restarts EXCEPT ![c] = 0]
               /\ children' = [children EXCEPT ![a] = IF FixD13 THEN @ \cup {c} ELSE @, ![c] = {}]
               /\ UNCHANGED <<faults, ifaults, events, spawned>>
          ELSE /\ reg' = [reg EXCEPT ![c] = TRUE]
               /\ spawned' = spawned \cup {c}
               /\ Alive
               /\ ex' = [ex EXCEPT ![a] = [e EXCEPT !.pc = "spawnwait"],
                                   ![c] = [NoEx EXCEPT !.pc = "prod", !.base = "spawn"]]
               /\ children' = IF FixD13 THEN [children EXCEPT ![a] = @ \cup {c}] ELSE children
               /\ UNCHANGED <<faults, ifaults, events, status, ring, mbuf, closed, restarts>>
  /\ UNCHANGED <<inc, tok, nextMsg, spret, dead, overlap, dups, log, accepted, sentBefore, acted, done, issued>>

SpawnWait(a) ==
  /\ ex[a].pc = "spawnwait" /\ Head(ex[a].todo) \in spret
  /\ children' = IF FixD13 THEN children ELSE [children EXCEPT ![a] = @ \cup {Head(ex[a].todo)}]
  /\ spret' = spret \ {Head(ex[a].todo)}
  /\ ExStep(a, [ex[a] EXCEPT !.pc = "spawnkids", !.todo = Tail(@)])
  /\ UNCHANGED <<reg, inc, restarts, status, ring, mbuf, closed, tok, faults, ifaults, nextMsg, spawned, dead, overlap, dups,
                 log, events, accepted, sentBefore, acted, done, issued>>

AfterStarted(a) ==
  /\ ex[a].pc = "afterstarted"
  /\ IF mbuf[a] # <<>>
     THEN ExStep(a, [ex[a] EXCEPT !.pc = "loop", !.batch = mbuf[a], !.i = 1, !.nproc = 0, !.replay = TRUE])
     ELSE ExStep(a, [ex[a] EXCEPT !.pc = "open"])
  /\ UNCHANGED Frame

(* process.Invoke *)
Loop(a) ==
  /\ ex[a].pc = "loop"
  /\ LET e == ex[a] IN
     IF e.i > Len(e.batch)
     THEN ExStep(a, [e EXCEPT !.pc = IF e.replay THEN "afterreplay" ELSE "runloop"])
     ELSE LET m == e.batch[e.i] IN
          IF m.t = "pill"
          THEN ExStep(a, [e EXCEPT !.nproc = e.i, !.cancel = m.tok, !.j = e.i + 1,
                                   !.pc = IF m.g THEN "drain" ELSE "cl_leave"])
          ELSE ExStep(a, [e EXCEPT !.nproc = e.i, !.pc = "deliver"])
  /\ UNCHANGED Frame

DoDeliver(a, c) ==
  /\ GateOK /\ ex[a].pc = "deliver" /\ CanCrash("user", c)
  /\ log' = Append(log, Entry(a, "user", ex[a].batch[ex[a].i].id, TRUE))
  /\ Spend(c)
  /\ IF c # "none" THEN ExStep(a, [ex[a] EXCEPT !.pc = "recover", !.from = "invoke", !.pv = c])
                   ELSE ExStep(a, [ex[a] EXCEPT !.pc = "loop", !.i = @ + 1])
  /\ UNCHANGED <<reg, inc, restarts, status, ring, mbuf, closed, children, tok, nextMsg, spawned, spret, dead, overlap, dups,
                 events, accepted, sentBefore, acted, done, issued>>

(* graceful drain: the messages behind the pill; further pills are suppressed *)
DrainSkip(a) ==
  /\ ex[a].pc = "drain"
  /\ LET e == ex[a] IN
     IF e.j > Len(e.batch) THEN ExStep(a, [e EXCEPT !.pc = "cl_leave"])
     ELSE /\ e.batch[e.j].t = "pill"
          /\ ExStep(a, [e EXCEPT !.j = @ + 1])
  /\ UNCHANGED Frame

DrainDeliver(a, c) ==
  /\ GateOK /\ ex[a].pc = "drain" /\ ex[a].j <= Len(ex[a].batch) /\ ex[a].batch[ex[a].j].t = "user"
  /\ CanCrash("user", c)
  /\ LET e == ex[a] np == IF FixD5 THEN e.j ELSE e.nproc IN
     /\ log' = Append(log, Entry(a, "user", e.batch[e.j].id, TRUE))
     /\ Spend(c)
     /\ IF c # "none" THEN ExStep(a, [e EXCEPT !.pc = "recover", !.from = "drain", !.nproc = np, !.pv = c])
                      ELSE ExStep(a, [e EXCEPT !.j = @ + 1, !.nproc = np])
  /\ UNCHANGED <<reg, inc, restarts, status, ring, mbuf, closed, children, tok, nextMsg, spawned, spret, dead, overlap, dups,
                 events, accepted, sentBefore, acted, done, issued>>

(* deferred recover() in Invoke / Start *)
NewMbuf(a) ==
  LET e == ex[a] IN
  IF e.from = "start" THEN mbuf[a]
  ELSE LET rest == SubSeq(e.batch, e.nproc + 1, Len(e.batch)) IN
       IF e.from = "drain" /\ FixD5 THEN <<Pill(e.cancel, TRUE)>> \o rest ELSE rest

(* the Stopped handler itself may panic (c # "none"): deliverStopped swallows it; before that repair the panic
   escaped the deferred function and killed the process *)
RecoverStopped(a, c) ==
  /\ GateOK /\ ex[a].pc = "recover" /\ DeliversStopped(a) /\ CanCrash("Stopped", c)
  /\ log' = Append(log, Entry(a, "Stopped", 0, FixD2))
  /\ Spend(c)
  /\ mbuf' = [mbuf EXCEPT ![a] = NewMbuf(a)]
  /\ IF c # "none" /\ ~FixD14 THEN dead' = TRUE /\ ExStep(a, NoEx)
                               ELSE UNCHANGED dead /\ ExStep(a, [ex[a] EXCEPT !.pc = "tryrestart", !.cancel = NoTok])
  /\ UNCHANGED <<reg, inc, restarts, status, ring, closed, children, tok, nextMsg, spawned, spret, overlap, dups,
                 events, accepted, sentBefore, acted, done, issued>>

RecoverSilent(a) ==
  /\ ex[a].pc = "recover" /\ ~DeliversStopped(a)
  /\ mbuf' = [mbuf EXCEPT ![a] = NewMbuf(a)]
  /\ ExStep(a, [ex[a] EXCEPT !.pc = "tryrestart", !.cancel = NoTok])
  /\ UNCHANGED <<reg, inc, restarts, status, ring, closed, children, tok, faults, ifaults, nextMsg, spawned, spret, dead, overlap, dups,
                 log, events, accepted, sentBefore, acted, done, issued>>

TryRestart(a) ==
  /\ ex[a].pc = "tryrestart"
  /\ IF ex[a].pv = "internal"
     THEN /\ ExStep(a, [ex[a] EXCEPT !.pc = "prod", !.pv = "none"])      \* InternalError: sleep, Start; budget untouched, no event
          /\ UNCHANGED <<restarts, events>>
     ELSE IF restarts[a] = MaxRestarts[a]
     THEN /\ events' = Append(events, Ev("MaxRestartsExceeded", a, 0))
          /\ ExStep(a, [ex[a] EXCEPT !.pc = "cl_leave", !.cancel = NilTok])
          /\ UNCHANGED restarts
     ELSE /\ restarts' = [restarts EXCEPT ![a] = @ + 1]
          /\ events' = Append(events, Ev("Restarted", a, restarts[a] + 1))
          /\ ExStep(a, [ex[a] EXCEPT !.pc = "prod", !.pv = "none"])
  /\ UNCHANGED <<reg, inc, status, ring, mbuf, closed, children, tok, faults, ifaults, nextMsg, spawned, spret, dead, overlap, dups,
                 log, accepted, sentBefore, acted, done, issued>>

(* process.cleanup *)
ClLeave(a) ==
  /\ ex[a].pc = "cl_leave"
  /\ children' = IF Parent[a] # "none" THEN [children EXCEPT ![Parent[a]] = @ \ {a}] ELSE children
  /\ ExStep(a, [ex[a] EXCEPT !.pc = "cl_snap"])
  /\ UNCHANGED <<reg, inc, restarts, status, ring, mbuf, closed, tok, faults, ifaults, nextMsg, spawned, spret, dead, overlap, dups,
                 log, events, accepted, sentBefore, acted, done, issued>>

ClSnap(a) ==
  /\ ex[a].pc = "cl_snap"
  /\ \E order \in Perms(children[a]) : ExStep(a, [ex[a] EXCEPT !.pc = "cl_kids", !.snap = order])
  /\ UNCHANGED Frame

ClKids(a) ==
  /\ ex[a].pc = "cl_kids" /\ Alive
  /\ LET e == ex[a] IN
     IF e.snap = <<>>
     THEN ExStep(a, [e EXCEPT !.pc = "cl_stop"]) /\ UNCHANGED <<ring, status, events, tok, overlap, dups>>
     ELSE LET c == Head(e.snap) IN
          /\ EnqEffect(c, Pill(PTok(c), TRUE), ring, status, [ex EXCEPT ![a] = [e EXCEPT !.pc = "cl_wait"]], events)
          /\ tok' = [tok EXCEPT ![PTok(c)] = IF reg[c] THEN "sent" ELSE "done"]
  /\ UNCHANGED <<reg, inc, restarts, mbuf, closed, children, faults, ifaults, nextMsg, spawned, spret, dead, dups,
                 log, accepted, sentBefore, acted, done, issued>>

ClWait(a) ==
  /\ ex[a].pc = "cl_wait" /\ tok[PTok(Head(ex[a].snap))] = "done"
  /\ ExStep(a, [ex[a] EXCEPT !.pc = "cl_kids", !.snap = Tail(@)])
  /\ UNCHANGED Frame

ClStop(a) ==
  /\ ex[a].pc = "cl_stop"
  /\ status' = [status EXCEPT ![a] = "stopped"]
  /\ reg' = [reg EXCEPT ![a] = FALSE]
  /\ closed' = [closed EXCEPT ![a] = TRUE]
  /\ ExStep(a, [ex[a] EXCEPT !.pc = "cl_stopped"])
  /\ UNCHANGED <<inc, restarts, ring, mbuf, children, tok, faults, ifaults, nextMsg, spawned, spret, dead, overlap, dups,
                 log, events, accepted, sentBefore, acted, done, issued>>

(* the final Stopped.  A receiver may spawn a successor under its own id from inside this handler (the id is free:
   the process is unregistered already); Spawn returns once the successor has handled Started *)
ClStopped(a, c) ==
  /\ GateOK /\ ex[a].pc = "cl_stopped" /\ CanCrash("Stopped", c)
  /\ log' = Append(log, Entry(a, "Stopped", 0, TRUE))
  /\ Spend(c)
  /\ IF c # "none" /\ ~FixD14
     THEN dead' = TRUE /\ ExStep(a, NoEx) /\ UNCHANGED <<reg, spawned>>
     ELSE IF c = "none" /\ Succ[a] # "none" /\ Succ[a] \notin spawned
     THEN /\ UNCHANGED dead /\ Alive
          /\ reg' = [reg EXCEPT ![Succ[a]] = TRUE] /\ spawned' = spawned \cup {Succ[a]}
          /\ ex' = [ex EXCEPT ![a] = [ex[a] EXCEPT !.pc = "cl_succwait"],
                              ![Succ[a]] = [NoEx EXCEPT !.pc = "prod", !.base = "spawn"]]
     ELSE UNCHANGED <<dead, reg, spawned>> /\ ExStep(a, [ex[a] EXCEPT !.pc = "cl_done"])
  /\ UNCHANGED <<inc, restarts, status, ring, mbuf, closed, children, tok, nextMsg, spret, overlap, dups,
                 events, accepted, sentBefore, acted, done, issued>>

ClSuccWait(a) ==
  /\ ex[a].pc = "cl_succwait" /\ Succ[a] \in spret
  /\ ExStep(a, [ex[a] EXCEPT !.pc = "cl_done"])
  /\ UNCHANGED Frame

ClDone(a) ==
  /\ ex[a].pc = "cl_done"
  /\ LET e == ex[a] IN
     /\ events' = Append(events, Ev("Stopped", a, 0))
     /\ acted' = IF acted[a] = NoTok THEN [acted EXCEPT ![a] = e.cancel] ELSE acted
     \* FixD3: every Stop/Poison call that found the process registered has put its cancel function on the process
     \* (onStopped); all of them are released now, not only the one whose pill was acted on
     /\ LET waiting == IF FixD3 THEN {t \in AllToks : tok[t] = "sent" /\ TargetOf(t) = a}
                       ELSE IF e.cancel \in AllToks THEN {e.cancel} ELSE {}
        IN /\ tok' = [t \in AllToks |-> IF t \in waiting THEN "done" ELSE tok[t]]
           /\ done' = [t \in Toks |-> IF t \in waiting THEN [at |-> Len(log), reg |-> reg[a], imm |-> FALSE] ELSE done[t]]
     /\ IF e.cancel = NilTok /\ ~FixD1
        THEN dead' = TRUE /\ ExStep(a, NoEx) /\ UNCHANGED spret
        ELSE /\ UNCHANGED dead
             /\ IF e.replay THEN ExStep(a, [e EXCEPT !.pc = "afterreplay", !.cancel = NoTok]) /\ UNCHANGED spret
                ELSE IF e.base = "run" THEN ExStep(a, [e EXCEPT !.pc = "runloop", !.cancel = NoTok]) /\ UNCHANGED spret
                ELSE ExStep(a, NoEx) /\ spret' = spret \cup {a}
  /\ UNCHANGED <<reg, inc, restarts, status, ring, mbuf, closed, children, faults, ifaults, nextMsg, spawned, overlap, dups,
                 log, accepted, sentBefore, issued>>

AfterReplay(a) ==
  /\ ex[a].pc = "afterreplay"
  /\ mbuf' = [mbuf EXCEPT ![a] = <<>>]
  /\ ExStep(a, [ex[a] EXCEPT !.pc = "open", !.replay = FALSE])
  /\ UNCHANGED <<reg, inc, restarts, status, ring, closed, children, tok, faults, ifaults, nextMsg, spawned, spret, dead, overlap, dups,
                 log, events, accepted, sentBefore, acted, done, issued>>

(* inbox.Start(p): CAS stopped->starting, idle, schedule *)
Open(a) ==
  /\ ex[a].pc = "open"
  /\ IF status[a] = "stopped" /\ ~(FixD4 /\ closed[a])
     THEN IF ex[a].base = "run"
          THEN \* a second worker is scheduled while this goroutine is still inside run()
               /\ overlap' = TRUE /\ status' = [status EXCEPT ![a] = "running"]
               /\ ExStep(a, [ex[a] EXCEPT !.pc = "runloop"]) /\ UNCHANGED spret
          ELSE /\ status' = [status EXCEPT ![a] = "running"]
               /\ ExStep(a, RunEx) /\ spret' = spret \cup {a} /\ UNCHANGED overlap
     ELSE /\ UNCHANGED <<status, overlap, dups>>
          /\ IF ex[a].base = "run" THEN ExStep(a, [ex[a] EXCEPT !.pc = "runloop"]) /\ UNCHANGED spret
             ELSE ExStep(a, NoEx) /\ spret' = spret \cup {a}
  /\ UNCHANGED <<reg, inc, restarts, ring, mbuf, closed, children, tok, faults, ifaults, nextMsg, spawned, dead, dups,
                 log, events, accepted, sentBefore, acted, done, issued>>

(* Inbox.run / process *)
RunLoop(a) ==
  /\ ex[a].pc = "runloop"
  /\ IF status[a] = "stopped" THEN ExStep(a, NoEx) /\ UNCHANGED <<status, ring>>
     ELSE IF ring[a] = <<>> THEN status' = [status EXCEPT ![a] = "idle"] /\ ExStep(a, NoEx) /\ UNCHANGED ring
     ELSE LET n == Min(Batch, Len(ring[a])) IN
          /\ ExStep(a, [RunEx EXCEPT !.pc = "loop", !.batch = SubSeq(ring[a], 1, n), !.i = 1])
          /\ ring' = [ring EXCEPT ![a] = SubSeq(@, n + 1, Len(@))]
          /\ UNCHANGED status
  /\ UNCHANGED <<reg, inc, restarts, mbuf, closed, children, tok, faults, ifaults, nextMsg, spawned, spret, dead, overlap, dups,
                 log, events, accepted, sentBefore, acted, done, issued>>

Next == \/ \E r \in Roots : Spawn(r)
        \/ \E r \in Roots : SpawnAgain(r)
        \/ \E a \in Actors : Send(a)
        \/ \E t \in Toks : StopReq(t)
        \/ \E a \in Actors : Prod(a)
        \/ \E a \in Actors, c \in PanicKinds : DoInit(a, c)
        \/ \E a \in Actors, c \in PanicKinds : DoStarted(a, c)
        \/ \E a \in Actors : SpawnKids(a)
        \/ \E a \in Actors : SpawnWait(a)
        \/ \E a \in Actors : AfterStarted(a)
        \/ \E a \in Actors : Loop(a)
        \/ \E a \in Actors, c \in PanicKinds : DoDeliver(a, c)
        \/ \E a \in Actors : DrainSkip(a)
        \/ \E a \in Actors, c \in PanicKinds : DrainDeliver(a, c)
        \/ \E a \in Actors, c \in PanicKinds : RecoverStopped(a, c)
        \/ \E a \in Actors : RecoverSilent(a)
        \/ \E a \in Actors : TryRestart(a)
        \/ \E a \in Actors : ClLeave(a)
        \/ \E a \in Actors : ClSnap(a)
        \/ \E a \in Actors : ClKids(a)
        \/ \E a \in Actors : ClWait(a)
        \/ \E a \in Actors : ClStop(a)
        \/ \E a \in Actors, c \in PanicKinds : ClStopped(a, c)
        \/ \E a \in Actors : ClSuccWait(a)
        \/ \E a \in Actors : ClDone(a)
        \/ \E a \in Actors : AfterReplay(a)
        \/ \E a \in Actors : Open(a)
        \/ \E a \in Actors : RunLoop(a)

Spec == Init /\ [][Next]_vars /\ WF_vars(Next)

---------------------------------------------------------------------------
(* properties: history predicates from ActorProps + a few over model state *)
(* nothing is parked at a gate and nothing can move by itself: every actor is idle or blocked (possibly for ever) *)
Quiet == \A a \in Actors : ~AtGate(a) /\ ~InternalEnabled(a)

C02_NoOverlap   == ~overlap
C04_Lifecycle   == P!Lifecycle(log)
C04_SpawnRet    == \A a \in spret : (\E i \in 1..Len(log) : log[i].a = a /\ log[i].kind = "Started") \/ ~reg[a]
C05_AtMostOnce  == P!AtMostOnce(log)
C05_InOrder     == P!InOrder(log)
C05_Fresh       == P!StoppedLast(log) /\ P!IncMonotone(log) /\ P!IncOrder(log)
C05_Numbered    == P!RestartsNumbered(events)
C05_Complete    == Quiet => \A a \in Actors : (reg[a] /\ P!NotStopping(issued, events, a)) => \A k \in accepted[a] : P!Handled(log, a, k)
C06_Alive       == ~dead
C06_Bounded     == (dups = 0 => P!ExhaustedOnce(events)) /\ P!RestartsBounded(events) /\ \A a \in Actors : restarts[a] <= MaxRestarts[a]
C06_Clean       == (Quiet /\ dups = 0) => P!CleanAfterExhaustion(events, issued, reg, FALSE)
C06_CleanKF     == (Quiet /\ dups = 0) => P!CleanAfterExhaustion(events, issued, reg, TRUE)    \* (an id spawned again is registered again)
C07_DoneAfterStop == P!DoneAfterStop(log, done, FALSE)
C07_DoneAfterStopKF == P!DoneAfterStop(log, done, TRUE)
C07_Drained     == P!Drained(log, events, done, issued, sentBefore)
C07_DrainedActed == \A t \in Toks : (done[t].at >= 0 /\ TokGraceful[t] /\ acted[TokTarget[t]] = t) =>
                       \A k \in sentBefore[t] : P!Handled(log, TokTarget[t], k)
C07_ActsOnSound == \A t \in Toks : (done[t].at >= 0 /\ P!ActsOn(issued, events, done, t)) => acted[TokTarget[t]] = t
C07_AllDone     == Quiet => P!AllDone(done, issued, events, FALSE)
C07_AllDoneKF   == Quiet => P!AllDone(done, issued, events, TRUE)
C08_Terminal    == Quiet => P!TerminalStopped(log, issued, events, reg, TRUE)
C08_KidsFirst   == P!KidsFirst(log, issued, events, FALSE)
C08_KidsFirstKF == P!KidsFirst(log, issued, events, TRUE)
C08_Children    == P!ChildrenExact(log, issued, events)
C08_NotDoneEarly == P!NotDoneEarly(log, done, issued, events, FALSE)
C08_NotDoneEarlyKF == P!NotDoneEarly(log, done, issued, events, TRUE)
C13_Chain       == P!ChainAlways(log)
C10_Resolvable  == P!LiveResolvable(log)
C10_DupNoEffect == P!IncOrder(log) /\ P!AtMostOnce(log) /\ P!InOrder(log)
=============================================================================
