----------------------------- MODULE ClusterAgent -----------------------------
(* The cluster agent of cluster/agent.go (one per node) and the operations of    *)
(* cluster/cluster.go that go through it.                                          *)
(*                                                                                *)
(* Per node n: members[n] (the agent's MemberSet, by member id), kinds[n] (kinds   *)
(* available cluster wide as this node sees it), activated[n] (actors known to be  *)
(* active anywhere: id -> hosting node), registry[n] (actors alive on n).          *)
(* psnap[n] is the queue of membership snapshots the node's provider has sent to   *)
(* its agent; net[<<s, d>>] the FIFO of agent-to-agent messages from s to d (the   *)
(* transport is one ordered stream per peer address).  Queues of different pairs   *)
(* are delivered in any interleaving.                                              *)
(*                                                                                *)
(* Mode "membership" (C18): one real node, snapshots are arbitrary subsets of the  *)
(*   member universe that contain the node itself, optionally with a duplicated    *)
(*   entry.                                                                        *)
(* Mode "activation" (C19): operations Activate / Deactivate / ClusterSpawn / Join *)
(*   / Leave are issued at quiescence (all queues empty), their notifications are  *)
(*   then delivered in every order.                                                *)
EXTENDS Integers, Sequences, FiniteSets, TLC

CONSTANTS Nodes,        \* real nodes (each has an engine and an agent)
          Ghosts,       \* further members that only appear in snapshots
          KindsOf,      \* member -> set of kinds it registered
          AKinds, AIds, \* kinds / ids used by Activate
          SpawnIds,     \* ids used by Cluster.Spawn (kind "sp")
          InitUp,       \* members of the cluster at the start (activation mode)
          MaxOps, Mode,
          PurgeByHost, SendTopology, CheckDuplicate,     \* mechanism switches (regression configs)
          Rogue          \* TRUE: the select function may also return a remote member that does not have the kind

Members == Nodes \cup Ghosts
VARIABLES up, ever, members, kinds, activated, registry, net, psnap, nops, emitted, lastop
vars == <<up, ever, members, kinds, activated, registry, net, psnap, nops, emitted, lastop>>

Pid(h, k, i) == [h |-> h, k |-> k, i |-> i]
IdOf(p) == <<p.k, p.i>>
Pairs == Nodes \X Nodes
AllPids == {Pid(h, k, i) : h \in Nodes, k \in AKinds \cup {"sp"}, i \in AIds \cup SpawnIds}
NoOp == [op |-> "none", n |-> "-", ret |-> "-"]

Init ==
  /\ up = IF Mode = "activation" THEN InitUp ELSE {}
  /\ ever = IF Mode = "activation" THEN InitUp ELSE {}      \* nodes that have been members (a node that left does not come back)
  /\ members = [n \in Nodes |-> IF Mode = "activation" /\ n \in InitUp THEN InitUp ELSE {}]
  /\ kinds = [n \in Nodes |-> IF Mode = "activation" /\ n \in InitUp THEN UNION {KindsOf[m] : m \in InitUp} ELSE KindsOf[n]]
  /\ activated = [n \in Nodes |-> {}] /\ registry = [n \in Nodes |-> {}]
  /\ net = [p \in Pairs |-> <<>>] /\ psnap = [n \in Nodes |-> <<>>]
  /\ nops = 0 /\ emitted = {} /\ lastop = NoOp

Quiescent == (\A p \in Pairs : net[p] = <<>>) /\ (\A n \in Nodes : psnap[n] = <<>>)
CanOp == Quiescent /\ nops < MaxOps

(* engine.Send(member.PID(), msg) for every member in `tos`: real nodes get it, anything else is dropped *)
SendAll(netB, src, tos, msg) ==
  [p \in Pairs |-> IF p[1] = src /\ p[2] \in tos /\ p[2] # src THEN Append(netB[p], msg) ELSE netB[p]]
(* the copy an agent sends to itself lands in its own inbox and is handled before anything the driver can deliver or
   ask afterwards: its effect is part of the operation *)

(* ---------------------------------------------------------------- membership *)
(* the provider of node n hands a snapshot to the agent (a *Members message in the agent's inbox) *)
ProviderSnapshot(n, S, dup) ==
  /\ Mode = "membership" /\ nops < MaxOps /\ psnap[n] = <<>>
  /\ n \in S /\ S \subseteq Members
  /\ psnap' = [psnap EXCEPT ![n] = Append(@, [s |-> S, dup |-> dup])]
  /\ nops' = nops + 1 /\ lastop' = [op |-> "snapshot", n |-> n, ret |-> "-"] /\ emitted' = {}
  /\ UNCHANGED <<up, ever, members, kinds, activated, registry, net>>

(* Agent.handleMembers: joined = snapshot \ view, left = view \ snapshot; all joins, then all leaves *)
HandleMembers(n) ==
  /\ psnap[n] # <<>>
  /\ LET S == Head(psnap[n]).s
         joined == S \ members[n]
         left == members[n] \ S
         acts == activated[n]
         kept == IF PurgeByHost THEN {p \in acts : p.h \notin left} ELSE acts
     IN /\ members' = [members EXCEPT ![n] = S]
        /\ kinds' = [kinds EXCEPT ![n] = IF left = {} THEN @ \cup UNION {KindsOf[m] : m \in joined}
                                         ELSE UNION {KindsOf[m] : m \in S}]
        \* memberJoin: our topology to the joiner, if we know any active actor
        /\ net' = IF acts # {} /\ SendTopology THEN SendAll(net, n, joined, [t |-> "topo", pids |-> acts, pid |-> Pid(n, "-", "-")]) ELSE net
        /\ activated' = [activated EXCEPT ![n] = kept]
        /\ emitted' = {[e |-> "join", n |-> n, m |-> m] : m \in joined} \cup {[e |-> "leave", n |-> n, m |-> m] : m \in left}
  /\ psnap' = [psnap EXCEPT ![n] = Tail(@)]
  /\ lastop' = [op |-> "deliver-snapshot", n |-> n, ret |-> "-"]
  /\ UNCHANGED <<up, ever, registry, nops>>

(* Cluster.Activate of a kind for which the select function picks a member that never answers (a ghost): the
   activation request times out, Activate returns nil, and nothing else changes -- the view still is the last snapshot
   (membership mode; generated as the last operation of a behaviour: it costs a request timeout) *)
ActivateTimeout(n, k, g) ==
  /\ Mode = "membership" /\ nops = MaxOps - 1 /\ psnap[n] = <<>>
  /\ g \in members[n] \cap Ghosts /\ k \in KindsOf[g]
  /\ nops' = nops + 1 /\ lastop' = [op |-> "activate-timeout", n |-> n, ret |-> "nil"] /\ emitted' = {}
  /\ UNCHANGED <<up, ever, members, kinds, activated, registry, net, psnap>>

(* ---------------------------------------------------------------- activation-mode operations *)
HasId(n, id) == \E p \in activated[n] : IdOf(p) = id
Candidates(n, k) == {m \in members[n] : k \in KindsOf[m]}

(* Cluster.Activate(kind, config.WithID(i).WithSelectMemberFunc(-> m)) on node n *)
Activate(n, k, i, m) ==
  /\ Mode = "activation" /\ CanOp /\ n \in up
  /\ nops' = nops + 1
  /\ IF (CheckDuplicate /\ HasId(n, <<k, i>>)) \/ Candidates(n, k) = {}
     THEN /\ m = n          \* (no choice to make)
          /\ lastop' = [op |-> "activate", n |-> n, ret |-> "nil"]
          /\ UNCHANGED <<registry, net>>
     ELSE IF Rogue /\ m \in (members[n] \cap Nodes) \ (Candidates(n, k) \cup {n})
     THEN \* the chosen member refuses (kind not registered there): nil, and no trace of the attempt anywhere
          /\ lastop' = [op |-> "activate", n |-> n, ret |-> "nil"]
          /\ UNCHANGED <<registry, net>>
     ELSE /\ m \in Candidates(n, k) /\ m \in Nodes
          \* local: handleActivationRequest; remote: ActivationRequest / ActivationResponse round trip (the agent blocks)
          /\ registry' = [registry EXCEPT ![m] = @ \cup {<<k, i>>}]
          /\ net' = SendAll(net, n, members[n], [t |-> "act", pid |-> Pid(m, k, i), pids |-> {}])
          /\ lastop' = [op |-> "activate", n |-> n, ret |-> m]
  /\ IF lastop'.ret # "nil" /\ n \in members[n]
     THEN /\ activated' = [activated EXCEPT ![n] = IF HasId(n, <<k, i>>) THEN @ ELSE @ \cup {Pid(m, k, i)}]
          /\ emitted' = {[e |-> "activation", n |-> n, m |-> m]}
     ELSE UNCHANGED activated /\ emitted' = {}
  /\ UNCHANGED <<up, ever, members, kinds, psnap>>

(* Cluster.Deactivate(pid) on node n: the agent broadcasts a Deactivation to every member *)
Deactivate(n, p) ==
  /\ Mode = "activation" /\ CanOp /\ n \in up /\ p \in activated[n]
  /\ nops' = nops + 1
  /\ net' = SendAll(net, n, members[n], [t |-> "deact", pid |-> p, pids |-> {}])
  /\ lastop' = [op |-> "deactivate", n |-> n, ret |-> "-"]
  /\ activated' = [activated EXCEPT ![n] = {q \in @ : IdOf(q) # IdOf(p)}]
  /\ registry' = [registry EXCEPT ![n] = IF p.h = n THEN @ \ {IdOf(p)} ELSE @]
  /\ emitted' = {[e |-> "deactivation", n |-> n, m |-> p.h]}
  /\ UNCHANGED <<up, ever, members, kinds, psnap>>

(* Cluster.Spawn(producer, "sp", WithID(i)) on node n: local spawn + an Activation to every member *)
ClusterSpawn(n, i) ==
  /\ Mode = "activation" /\ CanOp /\ n \in up /\ <<"sp", i>> \notin registry[n] /\ ~HasId(n, <<"sp", i>>)
  /\ nops' = nops + 1
  /\ registry' = [registry EXCEPT ![n] = @ \cup {<<"sp", i>>}]
  /\ net' = SendAll(net, n, members[n], [t |-> "act", pid |-> Pid(n, "sp", i), pids |-> {}])
  /\ lastop' = [op |-> "spawn", n |-> n, ret |-> n]
  /\ activated' = [activated EXCEPT ![n] = @ \cup {Pid(n, "sp", i)}]
  /\ emitted' = {[e |-> "activation", n |-> n, m |-> n]}
  /\ UNCHANGED <<up, ever, members, kinds, psnap>>

(* a node joins / leaves: every provider reports the new member set to its agent *)
Join(m) ==
  /\ Mode = "activation" /\ CanOp /\ m \in Nodes \ ever
  /\ up' = up \cup {m} /\ ever' = ever \cup {m} /\ nops' = nops + 1 /\ emitted' = {}
  /\ psnap' = [n \in Nodes |-> IF n \in up \cup {m} THEN Append(psnap[n], [s |-> up \cup {m}, dup |-> FALSE]) ELSE psnap[n]]
  /\ lastop' = [op |-> "join", n |-> m, ret |-> "-"]
  /\ UNCHANGED <<members, kinds, activated, registry, net>>

Leave(m) ==
  /\ Mode = "activation" /\ CanOp /\ m \in up /\ Cardinality(up) > 1
  /\ up' = up \ {m} /\ UNCHANGED ever /\ nops' = nops + 1 /\ emitted' = {}
  /\ psnap' = [n \in Nodes |-> IF n \in up \ {m} THEN Append(psnap[n], [s |-> up \ {m}, dup |-> FALSE]) ELSE psnap[n]]
  \* the node is gone: what it hosted is gone with it, nothing is delivered to it any more
  /\ registry' = [registry EXCEPT ![m] = {}]
  /\ activated' = [activated EXCEPT ![m] = {}] /\ members' = [members EXCEPT ![m] = {}]
  /\ lastop' = [op |-> "leave", n |-> m, ret |-> "-"]
  /\ UNCHANGED <<kinds, net>>

(* ---------------------------------------------------------------- agent-to-agent messages *)
Deliver(s, d) ==
  /\ net[<<s, d>>] # <<>>
  /\ LET msg == Head(net[<<s, d>>]) IN
     /\ net' = [net EXCEPT ![<<s, d>>] = Tail(@)]
     /\ lastop' = [op |-> "deliver", n |-> d, ret |-> s]
     /\ CASE msg.t = "act" ->        \* handleActivation: addActivated (first one wins), ActivationEvent
               /\ activated' = [activated EXCEPT ![d] = IF HasId(d, IdOf(msg.pid)) THEN @ ELSE @ \cup {msg.pid}]
               /\ emitted' = {[e |-> "activation", n |-> d, m |-> msg.pid.h]}
               /\ UNCHANGED registry
          [] msg.t = "deact" ->      \* handleDeactivation: removeActivated, Poison(pid), DeactivationEvent
               /\ activated' = [activated EXCEPT ![d] = {p \in @ : IdOf(p) # IdOf(msg.pid)}]
               /\ registry' = [registry EXCEPT ![d] = IF msg.pid.h = d THEN @ \ {IdOf(msg.pid)} ELSE @]
               /\ emitted' = {[e |-> "deactivation", n |-> d, m |-> msg.pid.h]}
          [] OTHER ->                \* handleActorTopology
               /\ activated' = [activated EXCEPT ![d] = @ \cup {p \in msg.pids : ~HasId(d, IdOf(p))}]
               /\ emitted' = {} /\ UNCHANGED registry
  /\ UNCHANGED <<up, ever, members, kinds, psnap, nops>>

Next == \/ \E n \in Nodes, S \in SUBSET Members, dup \in BOOLEAN : ProviderSnapshot(n, S, dup)
        \/ \E n \in Nodes : HandleMembers(n)
        \/ \E n \in Nodes, k \in AKinds \cup {"q"}, g \in Ghosts : ActivateTimeout(n, k, g)
        \/ \E n \in Nodes, k \in AKinds, i \in AIds, m \in Members : Activate(n, k, i, m)
        \/ \E n \in Nodes, p \in AllPids : Deactivate(n, p)
        \/ \E n \in Nodes, i \in SpawnIds : ClusterSpawn(n, i)
        \/ \E m \in Nodes : Join(m)
        \/ \E m \in Nodes : Leave(m)
        \/ \E p \in Pairs : Deliver(p[1], p[2])
Spec == Init /\ [][Next]_vars

(* ---------------------------------------------------------------- properties *)
(* C18: after a snapshot has been processed the view is the snapshot, one join event per new member, one leave event
        per member that dropped out, none for those that stayed; HasKind(k) <=> some member of the view advertises k *)
C18_KindsExact == \A n \in Nodes : (members[n] # {} /\ psnap[n] = <<>>) => kinds[n] = UNION {KindsOf[m] : m \in members[n]}
C18_Action == [][\A n \in Nodes : (psnap[n] # <<>> /\ psnap'[n] = Tail(psnap[n])) =>
                   /\ members'[n] = Head(psnap[n]).s
                   /\ emitted' = {[e |-> "join", n |-> n, m |-> m] : m \in Head(psnap[n]).s \ members[n]}
                                 \cup {[e |-> "leave", n |-> n, m |-> m] : m \in members[n] \ Head(psnap[n]).s}]_vars

(* C19 *)
Live == UNION {{Pid(n, id[1], id[2]) : id \in registry[n]} : n \in up}       \* actors alive on current members
(* at quiescence all members agree, and what they know is exactly what is alive on current members *)
C19_Agreement == (Mode = "activation" /\ Quiescent) => \A n \in up : activated[n] = Live
(* an id is hosted at most once across the cluster *)
C19_Unique == Mode = "activation" => \A n, m \in up : n # m => registry[n] \cap registry[m] = {}
(* an activated actor lives on a member that registered its kind *)
C19_Capable == Mode = "activation" => \A n \in up : \A id \in registry[n] : id[1] = "sp" \/ id[1] \in KindsOf[n]
TypeOK == nops \in 0..MaxOps
=============================================================================
