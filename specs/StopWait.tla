------------------------------- MODULE StopWait -------------------------------
(* The stop-waiter protocol of actor/process.go: every Stop / Poison caller         *)
(* registers its cancel function with the process (onStopped); the process releases  *)
(* them when it has stopped (stoppedNow, deferred in cleanup).  One action per        *)
(* operation on stopMu; a pc names the mutex operation a thread is parked in front    *)
(* of.                                                                                 *)
(*   caller:  Lock -> [finished: remember "call it now"] | [append to the waiters]    *)
(*            -> Unlock -> (call it now, outside the lock)                             *)
(*   actor:   Lock -> finished := TRUE, take the waiters -> Unlock -> call them all    *)
(* Serves C07: every caller is signalled, once, and only after the process stopped,   *)
(* however the callers and the stopping process interleave.                            *)
EXTENDS Integers, Sequences, FiniteSets, TLC

CONSTANTS Callers, Actor

Threads == Callers \cup {Actor}
VARIABLES holder, finished, waiters, pc, tmp, called
vars == <<holder, finished, waiters, pc, tmp, called>>

Init ==
  /\ holder = "none" /\ finished = FALSE /\ waiters = {}
  /\ pc = [t \in Threads |-> "lock"]
  /\ tmp = [t \in Threads |-> {}]                \* whom this thread calls after unlocking
  /\ called = [c \in Callers |-> 0]              \* how often caller c's cancel function has been called

Lock(t) ==
  /\ pc[t] = "lock" /\ holder = "none"
  /\ holder' = t /\ pc' = [pc EXCEPT ![t] = "unlock"]
  /\ IF t = Actor
     THEN finished' = TRUE /\ tmp' = [tmp EXCEPT ![t] = waiters] /\ waiters' = {}
     ELSE IF finished
          THEN tmp' = [tmp EXCEPT ![t] = {t}] /\ UNCHANGED <<finished, waiters>>
          ELSE waiters' = waiters \cup {t} /\ UNCHANGED <<finished, tmp>>
  /\ UNCHANGED called

Unlock(t) ==
  /\ pc[t] = "unlock" /\ holder = t
  /\ holder' = "none" /\ pc' = [pc EXCEPT ![t] = "done"]
  /\ called' = [c \in Callers |-> IF c \in tmp[t] THEN called[c] + 1 ELSE called[c]]
  /\ UNCHANGED <<finished, waiters, tmp>>

Next == \E t \in Threads : Lock(t) \/ Unlock(t)
Spec == Init /\ [][Next]_vars /\ WF_vars(Next)

(* ---------------------------------------------------------------- properties (C07) *)
AllDone == \A t \in Threads : pc[t] = "done"
C07_AllSignalled == AllDone => \A c \in Callers : called[c] = 1
C07_AtMostOnce == \A c \in Callers : called[c] <= 1
C07_OnlyAfterStop == \A c \in Callers : called[c] > 0 => finished
C07_Done == <>AllDone
TypeOK == holder \in Threads \cup {"none"}
=============================================================================
