------------------------------ MODULE ActorTrace ------------------------------
(* Evaluates the ActorProps predicates on histories recorded from the real        *)
(* engine by harness/cmd/actorscen (one JSON record per executed scenario).       *)
(* One TLC state per record; every property is an invariant, so a violated        *)
(* invariant names the property and the state's `l` the offending record.         *)
(* *_strict invariants are the same predicates without the known-finding          *)
(* carve-outs; they are expected to fail only with the listed signatures.         *)
EXTENDS Integers, Sequences, FiniteSets, TLC, Json

CONSTANTS Actors, Parent, Toks, TokTarget, TokGraceful, MaxRestarts

P == INSTANCE ActorProps

Trace == ndJsonDeserialize("actor_trace.ndjson")

VARIABLE l
Init == l = 1
Next == l < Len(Trace) /\ l' = l + 1
Spec == Init /\ [][Next]_l

R == Trace[l]
SetOf(s) == {s[i] : i \in 1..Len(s)}
TokOf(name) == <<"env", name>>

Log == [i \in 1..Len(R.log) |->
          [a |-> R.log[i].a, inc |-> R.log[i].inc, kind |-> R.log[i].kind, id |-> R.log[i].id, mw |-> R.log[i].mw,
           kids |-> SetOf(R.log[i].kids), alive |-> SetOf(R.log[i].alive), sreg |-> R.log[i].sreg,
           dn |-> {TokOf(x) : x \in SetOf(R.log[i].dn)}, par |-> R.log[i].par]]
Events == R.events
Done == [t \in Toks |-> R.done[t[2]]]
Issued == [i \in 1..Len(R.issued) |-> TokOf(R.issued[i])]
SentBefore == [t \in Toks |-> SetOf(R.sentBefore[t[2]])]
Accepted == [a \in Actors |-> SetOf(R.accepted[a])]
Reg == [a \in Actors |-> R.reg[a]]

T_C02 == ~R.overlap
T_C04 == /\ P!Lifecycle(Log)
         /\ \A a \in SetOf(R.spret) : (\E i \in 1..Len(Log) : Log[i].a = a /\ Log[i].kind = "Started") \/ ~Reg[a]
T_C05 == /\ P!AtMostOnce(Log) /\ P!InOrder(Log) /\ P!RestartsNumbered(Events) /\ R.witness
         /\ P!StoppedLast(Log) /\ P!IncMonotone(Log) /\ P!IncOrder(Log)      \* what follows a failure goes to a fresh, initialised receiver
         /\ R.quiet => \A a \in Actors : (Reg[a] /\ P!NotStopping(Issued, Events, a)) => \A k \in Accepted[a] : P!Handled(Log, a, k)
T_C06 == /\ P!RestartsBounded(Events) /\ R.witness /\ (R.respawns = 0 => P!ExhaustedOnce(Events))
         /\ (R.quiet /\ R.respawns = 0) => P!CleanAfterExhaustion(Events, Issued, Reg, FALSE)
T_C06_Clean_strict == (R.quiet /\ R.respawns = 0) => P!CleanAfterExhaustion(Events, Issued, Reg, FALSE)
T_C07 == /\ P!KindsKnown(Log)
         /\ P!DoneAfterStop(Log, Done, TRUE)
         /\ P!Drained(Log, Events, Done, Issued, SentBefore)
         /\ R.quiet => P!AllDone(Done, Issued, Events, FALSE)
T_C07_DoneAfterStop_strict == P!DoneAfterStop(Log, Done, FALSE)
T_C07_AllDone_strict == R.quiet => P!AllDone(Done, Issued, Events, FALSE)
T_C08 == /\ P!KidsFirst(Log, Issued, Events, TRUE)
         /\ R.quiet => P!TerminalStopped(Log, Issued, Events, Reg, TRUE)
         /\ P!ChildrenExact(Log, Issued, Events)
         /\ P!NotDoneEarly(Log, Done, Issued, Events, TRUE)
         /\ \A i \in 1..Len(Log) : Log[i].par = (IF Parent[Log[i].a] = "none" THEN "" ELSE Parent[Log[i].a])
T_C08_KidsFirst_strict == P!KidsFirst(Log, Issued, Events, FALSE)
T_C08_NotDoneEarly_strict == P!NotDoneEarly(Log, Done, Issued, Events, FALSE)
T_C13 == P!ChainAlways(Log)
(* lifecycle events the harness can count on its own, whatever way the races went: one ActorDuplicateIdEvent per spawn
   that found its id registered (Engine.Spawn and Context.SpawnChild alike), ActorRestartedEvents numbered 1, 2, ... *)
T_C12 == /\ Cardinality({i \in 1..Len(Events) : Events[i].e = "DuplicateId"}) = R.dupspawns
         /\ (R.respawns = 0 => P!RestartsNumbered(Events))
T_C10 == /\ P!LiveResolvable(Log) /\ P!IncOrder(Log) /\ P!AtMostOnce(Log) /\ P!InOrder(Log)
         /\ R.witness      \* a live actor whose id merely extends a model actor's id still answers
         /\ Cardinality({i \in 1..Len(Events) : Events[i].e = "DuplicateId"}) = R.dupspawns
         /\ \A a \in Actors : R.producers[a] = Cardinality({Log[i].inc : i \in {k \in 1..Len(Log) : Log[k].a = a}})
=============================================================================
