-------------------------------- MODULE Registry --------------------------------
(* actor/registry.go under concurrent callers, one action per operation on the     *)
(* registry's RWMutex:                                                               *)
(*   add(id)     Lock -> [id taken: Unlock -> publish ActorDuplicateIdEvent (which   *)
(*               itself looks the event stream up: RLock -> RUnlock)]                *)
(*                     | [insert: Unlock -> proc.Start()]                            *)
(*   remove(id)  Lock -> delete -> Unlock                                            *)
(*   get(id)     RLock -> look up -> RUnlock                                         *)
(* A pc names the mutex operation the thread is parked in front of.  Serves C10:     *)
(* of several concurrent spawns of one id exactly one starts an actor.               *)
EXTENDS Integers, Sequences, FiniteSets, TLC

CONSTANTS Progs          \* thread -> sequence of calls [op |-> "add" | "remove" | "get", id |-> ...]

Threads == DOMAIN Progs
VARIABLES table, writer, readers, pc, idx, res, tmp, starts
vars == <<table, writer, readers, pc, idx, res, tmp, starts>>

Cur(t) == Progs[t][idx[t]]
Ids == UNION {{Progs[t][k].id : k \in 1..Len(Progs[t])} : t \in Threads}
FirstPc(c) == IF c.op = "get" THEN "rlock" ELSE "lock"

Init ==
  /\ table = {} /\ writer = "none" /\ readers = {}
  /\ idx = [t \in Threads |-> 1]
  /\ pc = [t \in Threads |-> IF Progs[t] = <<>> THEN "done" ELSE FirstPc(Progs[t][1])]
  /\ res = [t \in Threads |-> <<>>] /\ tmp = [t \in Threads |-> "-"]
  /\ starts = [i \in Ids |-> 0]

Finish(t, r) ==
  /\ res' = [res EXCEPT ![t] = Append(@, r)]
  /\ idx' = [idx EXCEPT ![t] = @ + 1]
  /\ pc' = [pc EXCEPT ![t] = IF idx[t] = Len(Progs[t]) THEN "done" ELSE FirstPc(Progs[t][idx[t] + 1])]

Lock(t) ==
  /\ pc[t] = "lock" /\ writer = "none" /\ readers = {}
  /\ writer' = t
  /\ LET c == Cur(t) IN
     IF c.op = "remove" THEN table' = table \ {c.id} /\ tmp' = [tmp EXCEPT ![t] = "removed"]
     ELSE IF c.id \in table THEN UNCHANGED table /\ tmp' = [tmp EXCEPT ![t] = "dup"]
     ELSE table' = table \cup {c.id} /\ tmp' = [tmp EXCEPT ![t] = "started"]
  /\ pc' = [pc EXCEPT ![t] = "unlock"]
  /\ UNCHANGED <<readers, idx, res, starts>>

Unlock(t) ==
  /\ pc[t] = "unlock" /\ writer = t
  /\ writer' = "none"
  /\ IF tmp[t] = "dup"
     THEN pc' = [pc EXCEPT ![t] = "evrlock"] /\ UNCHANGED <<res, idx, starts>>       \* BroadcastEvent(ActorDuplicateIdEvent)
     ELSE /\ Finish(t, tmp[t])
          /\ starts' = IF tmp[t] = "started" THEN [starts EXCEPT ![Cur(t).id] = @ + 1] ELSE starts   \* proc.Start() outside the lock
  /\ UNCHANGED <<table, readers, tmp>>

RLock(t) ==
  /\ pc[t] \in {"rlock", "evrlock"} /\ writer = "none"
  /\ readers' = readers \cup {t}
  /\ IF pc[t] = "rlock"
     THEN tmp' = [tmp EXCEPT ![t] = IF Cur(t).id \in table THEN "found" ELSE "absent"] /\ pc' = [pc EXCEPT ![t] = "runlock"]
     ELSE UNCHANGED tmp /\ pc' = [pc EXCEPT ![t] = "evrunlock"]
  /\ UNCHANGED <<table, writer, idx, res, starts>>

RUnlock(t) ==
  /\ pc[t] \in {"runlock", "evrunlock"} /\ t \in readers
  /\ readers' = readers \ {t}
  /\ Finish(t, tmp[t])
  /\ UNCHANGED <<table, writer, tmp, starts>>

Next == \E t \in Threads : Lock(t) \/ Unlock(t) \/ RLock(t) \/ RUnlock(t)
Spec == Init /\ [][Next]_vars /\ WF_vars(Next)

(* ---------------------------------------------------------------- properties (C10) *)
Removes(i) == Cardinality(UNION {{<<t, k>> : k \in {j \in 1..Len(res[t]) : Progs[t][j].op = "remove" /\ Progs[t][j].id = i}} : t \in Threads})
(* an id is started at most once more than it has been removed: never two live actors under one id *)
C10_OneWinner == \A i \in DOMAIN starts : starts[i] <= Removes(i) + 1
C10_Exclusive == (writer # "none" => readers = {})
C10_Done == <>(\A t \in Threads : pc[t] = "done")
TypeOK == writer \in Threads \cup {"none"}
=============================================================================
