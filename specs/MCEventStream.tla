---- MODULE MCEventStream ----
EXTENDS EventStream
S2 == {"s1", "s2"}
S1 == {"s1"}
SM == {"m", "s1"}
\* r1: a subscriber on another node whose PID differs from s1's only in where the address ends and the id begins
SR == {"s1", "r1"}
NoRemote == {}
R1 == {"r1"}
O2 == {1, 2}
O1 == {1}
B2 == {"b1", "b2"}
B1 == {"b1"}
NoTargets == {}
AllTargets == {"nil", "never", "stopped", "foreign"}
SomeTargets == {"never", "foreign"}
LocalTargets == {"never", "stopped"}
NoSenders == {"nil"}
BothSenders == {"nil", "snd"}
AllSenders == {"nil", "snd", "req"}
ReqSenders == {"nil", "req"}
PlainPayload == {"msg"}
BothPayloads == {"msg", "nil"}
\* "dead": the message value is itself a DeadLetterEvent (a subscriber relaying one to a supervisor that is gone)
AllPayloads == {"msg", "nil", "dead"}
====
