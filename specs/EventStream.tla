------------------------------ MODULE EventStream ------------------------------
(* The event-stream actor of actor/event_stream.go together with the paths that   *)
(* feed it: Engine.Subscribe / Unsubscribe / BroadcastEvent, the dead-letter path  *)
(* of Engine.SendLocal and the missing-remote path of Engine.send.                 *)
(*                                                                                 *)
(* The stream is an ordinary actor: its inbox is a FIFO (C01) and its Receive      *)
(* handles one message per step (action Process).  Environment operations are      *)
(* issued at quiescence (inbox empty): the conformance harness waits for the       *)
(* deliveries the model predicts before it issues the next operation.              *)
(*                                                                                 *)
(* Subscriber PIDs exist as objects: object 1 is the *PID returned by Spawn,       *)
(* object 2 an equal PID (same address and id) held in another struct.             *)
(* KeyByValue = TRUE: subscriptions are identified by (address, id) (repaired      *)
(* tree); FALSE: by object identity (map[*PID]bool, the code before the repair).   *)
(* DropDead = TRUE: a local subscriber that is no longer registered is dropped     *)
(* when the next event is forwarded (repaired tree); FALSE: the stream keeps       *)
(* forwarding to it, and every forward comes back as a DeadLetterEvent.            *)
EXTENDS Integers, Sequences, FiniteSets, TLC, Json

CONSTANTS Subs, Objs, Bcasters, MaxOps, MaxEv,
          AllowStop, AllowRespawn, AllowRevive, RemoteSubs, SendTargets, SendSenders, SendPayloads,
          KeyByValue, DropDead, Export

VARIABLES inbox,    \* the stream's inbox
          subs,     \* the stream's subscription table: set of <<p, o>>  (o = 0 when keyed by value)
          alive,    \* alive[p]: subscriber actor p is running
          got,      \* got[p]: what p's Receive has seen, in order
          want,     \* ghost: what the property says p must have seen
          asub,     \* ghost: abstract subscription set, by value, in inbox order
          nops, nev, nmsg, hist, gen

vars == <<inbox, subs, alive, got, want, asub, nops, nev, nmsg, hist, gen>>

(* one shape for every event so that sequences stay homogeneous *)
UserEv(b, k)         == [k |-> "user", id |-> k, b |-> b, target |-> "-", sender |-> "-", of |-> "-"]
DeadEv(t, id, s, of) == [k |-> "dead", id |-> id, b |-> "-", target |-> t, sender |-> s, of |-> of]
MissEv(id, s)        == [k |-> "rmiss", id |-> id, b |-> "-", target |-> "foreign", sender |-> s, of |-> "msg"]

Key(p, o) == IF KeyByValue THEN <<p, 0>> ELSE <<p, o>>

Init ==
  /\ inbox = <<>> /\ subs = {} /\ alive = [p \in Subs |-> TRUE]
  /\ got = [p \in Subs |-> <<>>] /\ want = [p \in Subs |-> <<>>] /\ asub = {}
  /\ nops = 0 /\ nev = [b \in Bcasters |-> 0] /\ nmsg = 0 /\ hist = <<>> /\ gen = 0

Quiet == inbox = <<>>
CanOp == Quiet /\ nops < MaxOps

Op(rec) == nops' = nops + 1 /\ hist' = Append(hist, rec)

(* Engine.Subscribe(pid) / Unsubscribe(pid): a message to the stream *)
(* the PID may belong to an actor that has already stopped (at most one stopped-but-subscribed actor at a time) *)
Subscribe(p, o) ==
  /\ CanOp /\ (alive[p] \/ \A q \in Subs \ {p} : alive[q] \/ (\A oo \in Objs \cup {0} : <<q, oo>> \notin subs))
  /\ inbox' = Append(inbox, [t |-> "sub", p |-> p, o |-> o, e |-> UserEv("-", 0)])
  /\ Op([op |-> "sub", p |-> p, o |-> o, b |-> "-", target |-> "-", sender |-> "-", id |-> 0])
  /\ UNCHANGED <<subs, alive, got, want, asub, nev, nmsg, gen>>

Unsubscribe(p, o) ==
  /\ CanOp
  /\ inbox' = Append(inbox, [t |-> "unsub", p |-> p, o |-> o, e |-> UserEv("-", 0)])
  /\ Op([op |-> "unsub", p |-> p, o |-> o, b |-> "-", target |-> "-", sender |-> "-", id |-> 0])
  /\ UNCHANGED <<subs, alive, got, want, asub, nev, nmsg, gen>>

(* Engine.BroadcastEvent(e) from broadcaster goroutine b *)
Broadcast(b) ==
  /\ CanOp /\ nev[b] < MaxEv
  /\ nev' = [nev EXCEPT ![b] = @ + 1]
  /\ inbox' = Append(inbox, [t |-> "ev", p |-> "-", o |-> 0, e |-> UserEv(b, nev[b] + 1)])
  /\ Op([op |-> "bcast", p |-> "-", o |-> 0, b |-> b, target |-> "-", sender |-> "-", id |-> nev[b] + 1])
  /\ UNCHANGED <<subs, alive, got, want, asub, nmsg, gen>>

(* a subscriber stops (Poison, awaited) without unsubscribing; at most one such subscriber at a time keeps the
   order of the generated dead letters deterministic *)
StopSub(p) ==
  /\ CanOp /\ AllowStop /\ alive[p] /\ p \notin RemoteSubs /\ \A q \in Subs : alive[q] \/ (\A o \in Objs \cup {0} : <<q, o>> \notin subs)
  /\ alive' = [alive EXCEPT ![p] = FALSE]
  /\ Op([op |-> "stop", p |-> p, o |-> 0, b |-> "-", target |-> "-", sender |-> "-", id |-> 0])
  /\ UNCHANGED <<inbox, subs, got, want, asub, nev, nmsg, gen>>

(* a subscriber stops and, from inside its Stopped handler, spawns a successor under the same id which subscribes:
   the successor's Subscribe reaches the stream before the ActorStoppedEvent of the old incarnation does *)
StopRespawn(p) ==
  /\ CanOp /\ AllowRespawn /\ alive[p] /\ p \notin RemoteSubs
  /\ inbox' = Append(inbox, [t |-> "sub", p |-> p, o |-> 1, e |-> UserEv("-", 0)])
  /\ Op([op |-> "respawn", p |-> p, o |-> 1, b |-> "-", target |-> "-", sender |-> "-", id |-> 0])
  /\ UNCHANGED <<subs, alive, got, want, asub, nev, nmsg, gen>>

(* a subscriber that stopped earlier is spawned again under its id and the new actor subscribes (events broadcast
   while nobody ran under the id are not owed to anybody) *)
ReviveSub(p) ==
  /\ CanOp /\ AllowRevive /\ ~alive[p]
  /\ alive' = [alive EXCEPT ![p] = TRUE]
  /\ inbox' = Append(inbox, [t |-> "sub", p |-> p, o |-> 1, e |-> UserEv("-", 0)])
  /\ Op([op |-> "revive", p |-> p, o |-> 1, b |-> "-", target |-> "-", sender |-> "-", id |-> 0])
  /\ UNCHANGED <<subs, got, want, asub, nev, nmsg, gen>>

(* ... or the id is spawned again and the new actor does not subscribe: after an Unsubscribe for the PID (or if it never
   was subscribed) nothing is owed to it, whoever runs under the id *)
Revive(p) ==
  /\ CanOp /\ AllowRevive /\ ~alive[p] /\ p \notin asub
  /\ alive' = [alive EXCEPT ![p] = TRUE]
  /\ Op([op |-> "revive0", p |-> p, o |-> 0, b |-> "-", target |-> "-", sender |-> "-", id |-> 0])
  /\ UNCHANGED <<inbox, subs, got, want, asub, nev, nmsg, gen>>

(* Engine.Send / SendWithSender to something that cannot be delivered.  Sender "req": the message goes out through
   Engine.Request (the sender is the request's response PID).  Payload "nil": the message value is the untyped nil
   (it carries no id: 0) *)
SendUndeliverable(t, s, pl) ==
  /\ CanOp /\ t \in SendTargets /\ s \in SendSenders /\ pl \in SendPayloads
  /\ nmsg' = nmsg + 1
  /\ LET id == IF pl = "nil" THEN 0 ELSE nmsg + 1 IN       \* (payload "dead": a DeadLetterEvent value wrapping message id)
     /\ inbox' = CASE t = "nil"     -> inbox                                   \* nil target: nothing at all
                   [] t = "foreign" -> Append(inbox, [t |-> "ev", p |-> "-", o |-> 0, e |-> [MissEv(id, s) EXCEPT !.of = pl]])
                   [] OTHER         -> Append(inbox, [t |-> "ev", p |-> "-", o |-> 0, e |-> DeadEv(t, id, s, pl)])
     /\ Op([op |-> "send", p |-> "-", o |-> 0, b |-> pl, target |-> t, sender |-> s, id |-> id])
  /\ UNCHANGED <<subs, alive, got, want, asub, nev, gen>>

(* eventStream.Receive: one message *)
SubscribersOf == {x[1] : x \in subs}
Copies(p) == Cardinality({x \in subs : x[1] = p})
RECURSIVE Rep(_, _)
Rep(e, n) == IF n = 0 THEN <<>> ELSE <<e>> \o Rep(e, n - 1)

Process ==
  /\ inbox # <<>>
  /\ LET m == Head(inbox) rest == Tail(inbox) IN
     CASE m.t = "sub" ->
            /\ subs' = subs \cup {Key(m.p, m.o)} /\ asub' = asub \cup {m.p}
            /\ inbox' = rest /\ UNCHANGED <<got, want, gen>>
       [] m.t = "unsub" ->
            /\ subs' = subs \ {Key(m.p, m.o)} /\ asub' = asub \ {m.p}
            /\ inbox' = rest /\ UNCHANGED <<got, want, gen>>
       [] OTHER ->
            LET e == m.e
                \* repaired tree: a local subscriber that is no longer registered is dropped instead of forwarded to
                subs1 == IF DropDead THEN {x \in subs : alive[x[1]]} ELSE subs
                tos == {x[1] : x \in subs1}
                deadTo == {p \in tos : ~alive[p]}
                n(p) == Cardinality({x \in subs1 : x[1] = p})
            IN /\ subs' = subs1 /\ UNCHANGED asub
               /\ got' = [p \in Subs |-> IF p \in tos /\ alive[p] THEN got[p] \o Rep(e, n(p)) ELSE got[p]]
               /\ want' = [p \in Subs |-> IF p \in asub /\ alive[p] THEN Append(want[p], e) ELSE want[p]]
               \* forwarding to a stopped subscriber: SendLocal finds no process -> DeadLetterEvent back into the stream
               /\ IF deadTo = {} THEN inbox' = rest /\ UNCHANGED gen
                  ELSE LET d == CHOOSE p \in deadTo : TRUE IN      \* at most one by construction
                       /\ inbox' = rest \o Rep([t |-> "ev", p |-> "-", o |-> 0, e |-> DeadEv(d, e.id, "stream", e.k)], n(d))
                       /\ gen' = gen + 1
  /\ UNCHANGED <<alive, nops, nev, nmsg, hist>>

Next == \/ \E p \in Subs, o \in Objs : Subscribe(p, o) \/ Unsubscribe(p, o)
        \/ \E b \in Bcasters : Broadcast(b)
        \/ \E p \in Subs : StopSub(p)
        \/ \E p \in Subs : StopRespawn(p)
        \/ \E p \in Subs : ReviveSub(p)
        \/ \E p \in Subs : Revive(p)
        \/ \E t \in SendTargets, s \in SendSenders, pl \in SendPayloads : SendUndeliverable(t, s, pl)
        \/ Process

Spec == Init /\ [][Next]_vars /\ WF_vars(Process)

(* ---------------------------------------------------------------- properties *)
(* C12: between Subscribe and Unsubscribe (by address and id) every event exactly once, in broadcast order;
        none after Unsubscribe; subscribing twice does not duplicate *)
C12_Exact == \A p \in Subs : got[p] = want[p]
(* C09: a finite number of sends produces a finite number of events: one forwarding to a stopped subscriber may
        happen per undeliverable event, never a chain *)
C09_Finite == gen <= 3
C09_Live == <>[](inbox = <<>>)
(* C09: exactly one event per undeliverable send, with the original target / message id / sender (a nil target: none) *)
SendsOf(h) == {i \in 1..Len(h) : h[i].op = "send"}
AllSeen == LET p == CHOOSE q \in Subs : TRUE IN p   \* (unused helper kept for readability of exported cases)
TypeOK == nops \in 0..MaxOps /\ gen \in 0..100

(* ---------------------------------------------------------------- export (B-table / B-scenario) *)
Done == nops = MaxOps /\ Quiet
Case == [hist |-> hist, got |-> got, alive |-> alive]
ExportCase == (Export /\ Done) => PrintT(<<"CASE", ToJson(Case)>>)
=============================================================================
