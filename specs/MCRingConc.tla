---- MODULE MCRingConc ----
EXTENDS RingConc
P(v) == [op |-> "Push", v |-> v]
Po == [op |-> "Pop", v |-> 0]
PN(n) == [op |-> "PopN", v |-> n]
L == [op |-> "Len", v |-> 0]
\* two pushes that make a ring of capacity 2 grow, against a PopN and a reader of Len
ProgA == [a |-> <<P(1), P(2)>>, b |-> <<PN(2)>>, c |-> <<L, L>>]
\* pops racing pushes across the growth point
ProgB == [a |-> <<P(1), P(2), P(3)>>, b |-> <<Po, PN(2)>>]
ProgC == [a |-> <<P(1), P(2)>>, b |-> <<P(3), Po>>, c |-> <<PN(3), L>>]
====
