package remote

import (
	"net"
	"sync/atomic"
	"testing"
	"time"

	"github.com/anthdm/hollywood/actor"
)

func d16Addr(t *testing.T) string {
	l, err := net.Listen("tcp", "127.0.0.1:0")
	if err != nil {
		t.Fatal(err)
	}
	defer l.Close()
	return l.Addr().String()
}

// A sender keeps sending while the peer goes away and comes back. Whatever happens to the messages of the outage,
// once the peer is up again and the dust has settled a later send must make a fresh attempt and arrive.
func TestD16FreshAttemptAfterOutageUnderTraffic(t *testing.T) {
	for round := 0; round < 40; round++ {
		addrA, addrB := d16Addr(t), d16Addr(t)
		ra := New(addrA, NewConfig())
		a, _ := actor.NewEngine(actor.NewEngineConfig().WithRemote(ra))
		var got atomic.Int64
		startB := func() *Remote {
			rb := New(addrB, NewConfig())
			b, err := actor.NewEngine(actor.NewEngineConfig().WithRemote(rb))
			if err != nil {
				t.Fatal(err)
			}
			b.SpawnFunc(func(c *actor.Context) {
				if _, ok := c.Message().(*TestMessage); ok {
					got.Add(1)
				}
			}, "rec", actor.WithID("1"))
			return rb
		}
		rb := startB()
		target := actor.NewPID(addrB, "rec/1")
		a.Send(target, &TestMessage{Data: []byte("hello")})
		for i := 0; got.Load() == 0 && i < 500; i++ {
			time.Sleep(10 * time.Millisecond)
		}
		if got.Load() == 0 {
			t.Fatal("first contact failed")
		}
		// traffic during the outage
		stop := make(chan struct{})
		done := make(chan struct{})
		go func() {
			defer close(done)
			for {
				select {
				case <-stop:
					return
				default:
					a.Send(target, &TestMessage{Data: []byte("x")})
				}
			}
		}()
		time.Sleep(5 * time.Millisecond)
		rb.Stop().Wait()
		time.Sleep(50 * time.Millisecond)
		close(stop)
		<-done
		// let every pending connection attempt fail (3 dials, about 3 s), then bring the peer back
		time.Sleep(4 * time.Second)
		rb2 := startB()
		before := got.Load()
		ok := false
		for i := 0; i < 10 && !ok; i++ { // each send may start an attempt of its own; one of them has to get through
			a.Send(target, &TestMessage{Data: []byte("again")})
			for j := 0; j < 400 && got.Load() == before; j++ {
				time.Sleep(10 * time.Millisecond)
			}
			ok = got.Load() > before
		}
		rb2.Stop().Wait()
		ra.Stop().Wait()
		if !ok {
			t.Fatalf("round %d: the peer is up again but 10 later sends, 4 s apart, never arrived: no fresh connection attempt is made", round)
		}
	}
}
